package interp

// Engine additions by agentF1 (properties C06 HMAC part, C10).
//
//  * base64: exact decodability predicate (regular language of the alphabet and
//    length class), length relations, and the partial injectivity of decoding
//    (only trailing bits of the last character are ignored by Go's decoder).
//  * hmac: A-mac collision resistance as pairwise injectivity of the MAC UF over
//    the applications that occur on one path, plus ground facts for MACs that
//    were evaluated natively on the same path.

import (
	"encoding/base64"
)

const (
	reB64URLChar = `(re.union (re.range "A" "Z") (re.range "a" "z") (re.range "0" "9") (str.to_re "-") (str.to_re "_"))`
	reB64StdChar = `(re.union (re.range "A" "Z") (re.range "a" "z") (re.range "0" "9") (str.to_re "+") (str.to_re "/"))`
)

func b64IsRaw(e *base64.Encoding) bool {
	return len(e.EncodeToString([]byte{0})) == 2
}

func b64IsURL(e *base64.Encoding) bool {
	return e.EncodeToString([]byte{0xfb, 0xff}) [0:3] == "-_8"
}

// b64OkTerm is the exact condition (over printable ASCII; Go additionally skips CR/LF) under which
// the encoding's DecodeString accepts s: alphabet membership plus the length class. (The length
// class is kept out of the regular expression: cvc5 answers unknown on (A^4)* style languages.)
func b64OkTerm(e *base64.Encoding, s *Term) *Term {
	a := reB64StdChar
	rawName := "u_b64rawstd"
	if b64IsURL(e) {
		a = reB64URLChar
		rawName = "u_b64url"
	}
	// alphabet membership, part by part: outputs of the unpadded encoder of the same alphabet are
	// members by construction (no regular constraint on UF-valued strings: they are slow in cvc5)
	alpha := func(t *Term) *Term {
		var cs []*Term
		for _, p := range concatParts(t) {
			if p.Op == "uf" && p.S == rawName {
				continue
			}
			cs = append(cs, mkInRe(p, "(re.* "+a+")"))
		}
		return mkAnd(cs...)
	}
	if b64IsRaw(e) {
		return mkAnd(alpha(s), mkNot(mkEq(mkApp("mod", SInt, mkLen(s), mkInt(4)), mkInt(1))))
	}
	// padded: length multiple of four, at most two trailing '='
	body := "(re.++ (re.* " + a + `) (re.union (str.to_re "") (str.to_re "=") (str.to_re "==")))`
	l := mkLen(s)
	return mkAnd(mkInRe(s, body), mkEq(mkApp("mod", SInt, l, mkInt(4)), mkInt(0)))
}

// b64EncodeAxioms constrains r = enc(x).
func b64EncodeAxioms(m *Machine, e *base64.Encoding, n string, x, r *Term) {
	// encodings of digests / MACs are non-empty: say so literally, so that `part == ""` tests need no query
	if x.Op == "uf" && len(x.S) > 7 && (x.S[:7] == "u_hmac_" || x.S[:7] == "u_hash_") {
		m.assume(mkNot(mkEq(r, mkStr(""))))
	}
	if b64IsRaw(e) {
		lr3 := mkMul(mkLen(r), mkInt(3))
		lx4 := mkMul(mkLen(x), mkInt(4))
		m.assume(mkAnd(mkLe(lx4, lr3), mkLt(lr3, mkAdd(lx4, mkInt(3)))))
	}
	m.b64NoteDecoded(e, n, r)
}

// b64DecodeAxioms makes the decodability predicate of s exact.
func b64DecodeAxioms(m *Machine, e *base64.Encoding, n string, s, ok *Term) {
	m.assume(mkEq(ok, b64OkTerm(e, s)))
}

// b64DecodedAxioms constrains d = dec(s) for decodable s.
func b64DecodedAxioms(m *Machine, e *base64.Encoding, n string, s, d *Term) {
	ls3 := mkMul(mkLen(s), mkInt(3))
	ld4 := mkMul(mkLen(d), mkInt(4))
	if b64IsRaw(e) {
		m.assume(mkAnd(mkLe(ld4, ls3), mkLt(ls3, mkAdd(ld4, mkInt(4)))))
	} else {
		m.assume(mkLe(ld4, ls3))
	}
	m.b64NoteDecoded(e, n, s)
}

// b64NoteDecoded is kept as a no-op registration point (the pairwise axioms are emitted lazily
// by b64DecEqAxiom when two decodings are actually related by a MAC equation).
func (m *Machine) b64NoteDecoded(e *base64.Encoding, n string, s *Term) {}

// b64DecEqAxiom: for x = dec(a), y = dec(b) of the same unpadded encoding, equal decodings force equal
// lengths and equality up to the last character (Go ignores only trailing bits of the last character);
// for lengths that are multiples of four decoding is injective.
func (m *Machine) b64DecEqAxiom(x, y *Term) {
	if x.Op != "uf" || y.Op != "uf" || x.S != y.S || len(x.Args) != 1 || len(y.Args) != 1 {
		return
	}
	if x.S != "u_b64url_dec" && x.S != "u_b64rawstd_dec" {
		return
	}
	a, s := x.Args[0], y.Args[0]
	if sameTerm(a, s) {
		return
	}
	la, ls := mkLen(a), mkLen(s)
	same := mkEq(x, y)
	if a.IsConst() && s.IsConst() {
		return
	}
	pa := mkSubstr(a, mkInt(0), mkSub(la, mkInt(1)))
	ps := mkSubstr(s, mkInt(0), mkSub(ls, mkInt(1)))
	m.assume(mkImplies(same, mkAnd(mkEq(la, ls), mkEq(pa, ps))))
	m.assume(mkImplies(mkAnd(same, mkEq(mkApp("mod", SInt, la, mkInt(4)), mkInt(0))), mkEq(a, s)))
}

type macApp struct {
	key, data, out *Term
}

// noteMAC records one application out = mac_hname(key, data) (symbolic or natively evaluated)
// and asserts A-mac collision resistance against the other applications on this path.
func (m *Machine) noteMAC(hname string, key, data, out *Term, ufName string) {
	gk := "f1:mac:" + hname
	concrete := out.IsConst()
	for _, o := range m.ghost[gk] {
		a := o.(macApp)
		if sameTerm(a.out, out) && sameTerm(a.key, key) && sameTerm(a.data, data) {
			return
		}
	}
	for _, o := range m.ghost[gk] {
		a := o.(macApp)
		if concrete && a.out.IsConst() {
			continue
		}
		// ground fact for natively evaluated applications, so that congruence sees them
		if concrete {
			m.assume(mkEq(mkUF(ufName, SStr, key, data), out))
		}
		if a.out.IsConst() {
			m.assume(mkEq(mkUF(ufName, SStr, a.key, a.data), a.out))
		}
		m.assume(mkImplies(mkEq(a.out, out), mkAnd(mkEq(a.key, key), mkEq(a.data, data))))
		// (b64DecEqAxiom is not emitted here: its substr terms cost seconds per query; harnesses that
		// relate two decodings state the needed disequality themselves)
	}
	m.ghost[gk] = append(m.ghost[gk], macApp{key, data, out})
	m.note("A-mac: for each hash function the MAC is injective in (key, message) on the applications of one path (collision resistance)")
}

// macEqSimplify decides equalities between two MAC applications of the same hash function
// syntactically (A-mac injectivity): different constant keys never collide, equal keys reduce
// the question to the messages.
func macEqSimplify(x, y *Term) (*Term, bool) {
	if !x.IsConst() && !y.IsConst() && x.String() > y.String() {
		x, y = y, x // canonical argument order, so that repeated comparisons render identically
	}
	if r, ok := macEqSimplify1(x, y); ok {
		return r, true
	}
	if !x.IsConst() && !y.IsConst() {
		return mkEq(x, y), true
	}
	return nil, false
}

func macEqSimplify1(x, y *Term) (*Term, bool) {
	if x.Op != "uf" || y.Op != "uf" || x.S != y.S || len(x.Args) != 2 || len(y.Args) != 2 {
		return nil, false
	}
	if len(x.S) < 7 || x.S[:7] != "u_hmac_" {
		return nil, false
	}
	kx, ky := x.Args[0], y.Args[0]
	if kx.IsConst() && ky.IsConst() {
		if kx.S != ky.S {
			return mkBool(false), true
		}
		return eqCanon(x.Args[1], y.Args[1]), true
	}
	if sameTerm(kx, ky) {
		return eqCanon(x.Args[1], y.Args[1]), true
	}
	return nil, false
}

func eqCanon(x, y *Term) *Term {
	if !x.IsConst() && !y.IsConst() && x.String() > y.String() {
		x, y = y, x
	}
	return mkEq(x, y)
}
