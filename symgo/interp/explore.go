package interp

// Explorer: DFS over decision vectors with a worker pool; one solver process
// per worker; every path re-executes the harness from scratch.

import (
	"fmt"
	"os"
	"runtime/debug"
	"sync"
	"time"

	"golang.org/x/tools/go/ssa"
)

type Config struct {
	Workers      int
	Solver       string
	TimeoutMs    int
	MaxPaths     int
	MaxDecisions int
	MaxSteps     int64
	Deadline     time.Time
	Concrete     bool
	Trace        bool
	Thorough     bool
	CrossSolver  string
	CrossBudget  int
}

type HarnessResult struct {
	Name          string
	Paths         []*PathResult
	Completed     int
	Unmodelled    map[string]int
	BoundExceeded []string
	Covers        map[string]bool
	CoverModels   map[string]*PathResult // label -> path with model
	Violations    []*Candidate
	Unknowns      map[string]int
	Discharged    int
	ConcreteTrue  int
	Edges         int64
	Stats         SolverStats
	Funcs         map[string]bool
	Intrinsics    map[string]bool
	Assumptions   map[string]bool
	CrossAgree    int64 // unsat verdicts confirmed (unsat) by the second solver
	CrossUnknown  int64 // second solver answered unknown/timeout
	CrossDisagree int64 // second solver found a model: verdict not trusted
	Wall          time.Duration
	PathsTruncated bool
}

type Candidate struct {
	Harness string
	Label   string
	Pos     string
	Model   map[string]any
	Trace   []int
	Concrete bool
}

type Explorer struct {
	prog    *Program
	fn      *ssa.Function
	cfg     Config
	mu      sync.Mutex
	cond    *sync.Cond
	stack   [][]int
	active  int
	started int
	res     *HarnessResult
	stop    bool
	crossUsed int
}

func (ex *Explorer) push(tr []int) {
	ex.mu.Lock()
	ex.stack = append(ex.stack, tr)
	ex.mu.Unlock()
	ex.cond.Signal()
}

// crossBudget limits second-solver checks of feasibility prunings (assertion discharges are always cross-checked).
func (ex *Explorer) crossBudget() bool {
	if ex.cfg.CrossSolver == "" {
		return false
	}
	ex.mu.Lock()
	defer ex.mu.Unlock()
	ex.crossUsed++
	return ex.crossUsed <= ex.cfg.CrossBudget
}

func (ex *Explorer) noteCross(r Result) {
	ex.mu.Lock()
	switch r {
	case Unsat:
		ex.res.CrossAgree++
	case Sat:
		ex.res.CrossDisagree++
	default:
		ex.res.CrossUnknown++
	}
	ex.mu.Unlock()
}

func (ex *Explorer) noteUnknown(what string) {
	ex.mu.Lock()
	ex.res.Unknowns[what]++
	ex.mu.Unlock()
}

func (ex *Explorer) pop() ([]int, bool) {
	ex.mu.Lock()
	defer ex.mu.Unlock()
	for {
		if ex.stop {
			return nil, false
		}
		if n := len(ex.stack); n > 0 {
			if ex.started >= ex.cfg.MaxPaths || (!ex.cfg.Deadline.IsZero() && time.Now().After(ex.cfg.Deadline)) {
				ex.res.PathsTruncated = true
				ex.stack = nil
				if ex.active == 0 {
					ex.stop = true
					ex.cond.Broadcast()
					return nil, false
				}
				continue
			}
			tr := ex.stack[n-1]
			ex.stack = ex.stack[:n-1]
			ex.active++
			ex.started++
			return tr, true
		}
		if ex.active == 0 {
			ex.stop = true
			ex.cond.Broadcast()
			return nil, false
		}
		ex.cond.Wait()
	}
}

func (ex *Explorer) done(pr *PathResult) {
	ex.mu.Lock()
	defer ex.mu.Unlock()
	ex.active--
	r := ex.res
	r.Edges += int64(pr.Decisions)
	if len(r.Paths) < 2000 {
		r.Paths = append(r.Paths, pr)
	}
	switch pr.Status {
	case "ok":
		r.Completed++
	case "unmodelled":
		r.Unmodelled[pr.Detail]++
	case "budget":
		r.BoundExceeded = append(r.BoundExceeded, pr.Detail)
	case "assume-infeasible", "infeasible":
	default:
		r.Unmodelled[pr.Status+": "+pr.Detail]++
	}
	for f := range pr.Funcs {
		r.Funcs[f] = true
	}
	for _, a := range pr.Assumptions {
		r.Assumptions[a] = true
	}
	for _, c := range pr.Covers {
		if !r.Covers[c] {
			r.Covers[c] = true
		}
		if pr.CoverModel != nil && r.CoverModels[c] == nil {
			r.CoverModels[c] = pr
		}
	}
	for _, a := range pr.Asserts {
		switch a.Status {
		case "discharged":
			r.Discharged++
		case "concrete-true":
			r.ConcreteTrue++
		case "violated":
			r.Violations = append(r.Violations, &Candidate{Harness: r.Name, Label: a.Label, Pos: a.Pos, Model: a.Model, Trace: pr.Trace})
		case "unknown":
			r.Unknowns["assert:"+a.Label]++
		}
	}
	if pr.Overflow == "possible" || pr.Overflow == "unknown" {
		r.Unknowns["overflow-"+pr.Overflow]++
	}
	ex.cond.Broadcast()
}

func (ex *Explorer) needCoverModel(labels []string) bool {
	ex.mu.Lock()
	defer ex.mu.Unlock()
	for _, l := range labels {
		if ex.res.CoverModels[l] == nil {
			return true
		}
	}
	return false
}

// Explore runs harness fn to completion over all paths.
func Explore(p *Program, fn *ssa.Function, cfg Config) *HarnessResult {
	t0 := time.Now()
	ex := &Explorer{prog: p, fn: fn, cfg: cfg}
	ex.cond = sync.NewCond(&ex.mu)
	ex.res = &HarnessResult{Name: fn.Name(), Unmodelled: map[string]int{}, Covers: map[string]bool{},
		CoverModels: map[string]*PathResult{}, Unknowns: map[string]int{}, Funcs: map[string]bool{},
		Intrinsics: map[string]bool{}, Assumptions: map[string]bool{}}
	ex.stack = [][]int{{}}
	var wg sync.WaitGroup
	for w := 0; w < cfg.Workers; w++ {
		wg.Add(1)
		go func() {
			defer wg.Done()
			var s, xs *Solver
			defer func() { s.Close(); xs.Close() }()
			for {
				tr, ok := ex.pop()
				if !ok {
					return
				}
				if s == nil || s.dead {
					if s != nil {
						s.Close()
					}
					var err error
					s, err = NewSolver(cfg.Solver, cfg.TimeoutMs)
					if err != nil {
						fmt.Fprintln(os.Stderr, "symgo: cannot start solver:", err)
						os.Exit(2)
					}
				}
				if cfg.CrossSolver != "" && (xs == nil || xs.dead) {
					xs.Close()
					xs, _ = NewSolver(cfg.CrossSolver, 1500)
				}
				before := s.Stats
				pr := ex.runPath(s, xs, tr)
				d := s.Stats
				d.Queries -= before.Queries
				d.Sat -= before.Sat
				d.Unsat -= before.Unsat
				d.Unknown -= before.Unknown
				d.Errors -= before.Errors
				d.Nanos -= before.Nanos
				ex.res.Stats.add(&d)
				ex.done(pr)
			}
		}()
	}
	wg.Wait()
	ex.res.Wall = time.Since(t0)
	return ex.res
}

func (ex *Explorer) runPath(s, xs *Solver, prefix []int) (pr *PathResult) {
	s.Reset()
	m := &Machine{ex: ex, solver: s, xsolver: xs, prefix: prefix, names: map[string]int{}, ghost: map[string][]value{}, concrete: ex.cfg.Concrete}
	pr = &PathResult{Status: "ok", Funcs: map[string]bool{}}
	m.res = pr
	i := newInterpreter(ex.prog, m)
	defer func() {
		pr.Trace = m.trace
		pr.Decisions = len(m.trace)
		pr.Steps = m.steps
		if r := recover(); r != nil {
			switch r := r.(type) {
			case unmodelled:
				pr.Status, pr.Detail = "unmodelled", r.what
			case pathEnd:
				switch {
				case r.reason == "assume-false" || r.reason == "infeasible":
					pr.Status = "assume-infeasible"
				case len(r.reason) >= 6 && r.reason[:6] == "budget", len(r.reason) >= 5 && r.reason[:5] == "bound":
					pr.Status, pr.Detail = "budget", r.reason
				case r.reason == "assert-stop":
					// path ended after a violated assertion
				default:
					pr.Status, pr.Detail = "ended", r.reason
				}
			case targetPanic:
				pr.Status, pr.Detail = "panic", "target panic: "+toString(r.v)
			default:
				pr.Status, pr.Detail = "panic", fmt.Sprintf("%v", r)
				if ex.cfg.Trace || os.Getenv("SYMGO_STACK") != "" {
					fmt.Fprintf(os.Stderr, "PANIC %v\n%s\n", r, debug.Stack())
				}
			}
		}
		if pr.Status == "ok" || pr.Status == "ended" {
			m.finishPath()
		}
	}()
	i.runInit()
	call(i, nil, 0, ex.fn, nil)
	return pr
}

// finishPath checks the arithmetic side-conditions and, if this path covers a
// label with no validation model yet, extracts a model for native replay.
func (m *Machine) finishPath() {
	pr := m.res
	if len(m.oblig) > 0 {
		switch m.solver.CheckWith(mkNot(mkAnd(m.oblig...))) {
		case Unsat:
			pr.Overflow = "checked"
		case Sat:
			pr.Overflow = "possible"
		default:
			pr.Overflow = "unknown"
		}
	}
	if len(pr.Covers) > 0 && m.ex.needCoverModel(pr.Covers) && !m.concrete {
		switch m.withRefinedModel(func() { // model validated against the native evaluators of the UFs (refine_agentC.go)
			model, _, ok := m.modelOfInputs()
			if ok {
				pr.CoverModel = model
				pr.Obs = m.evalObservations()
			}
		}) {
		case Unsat:
			// the path only existed because an uninterpreted function was unconstrained
			pr.Status, pr.Covers = "infeasible", nil
		}
	}
}
