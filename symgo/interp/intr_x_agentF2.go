package interp

// Model of go-jose v3 (JWS compact tokens, JWKs) for the symbolic engine.
// Author: agentF2.  Used by the C06 (JWT clause), C14 and C15 harnesses.
//
// Realisability (DESIGN 4.3): a JWT enters a harness as a *spec* through the
// harness library zz_verif_h/zzjwt. Natively zzjwt.GenKey/Sign make real keys
// and real compact JWS strings; here both are intercepted:
//
//   - a key is an interpreter struct of the right Go type (*rsa.PrivateKey,
//     *ecdsa.PublicKey, ...) whose big-integer field N (RSA) / X (ECDSA) points to
//     a cell holding a *joseKeyMark: key identity = identity of the mark;
//   - a token is a concrete three-part string "zzH<i>.zzP<j>.zzS<k>"; each part is
//     registered in a per-path table: header part -> JSON object, payload part ->
//     JSON value (leaves may be symbolic strings / integers), signature part ->
//     (signing key mark, header part, payload part, "algorithm fitted the key").
//     Harnesses may recombine parts (tampering = payload of another token).
//
// The go-jose entry points used by fosite are intrinsics over that table.
// Every assumption is recorded through Machine.note and validated by the native
// replays (each Cover label's model runs against the real go-jose).

import (
	"bytes"
	"encoding/base64"
	"encoding/json"
	"fmt"
	"go/types"
	"io"
	"sort"
	"strconv"
	"strings"
	"unicode"
)

const (
	josePkg    = "github.com/go-jose/go-jose/v3"
	joseJWTPkg = "github.com/go-jose/go-jose/v3/jwt"
	joseJSON   = "github.com/go-jose/go-jose/v3/json"
	zzjwtPkg   = "github.com/ory/fosite/zz_verif_h/zzjwt"
)

// ---------------------------------------------------------------- JSON values

// jval is a JSON value whose string / integer leaves may be symbolic.
type jval struct {
	kind  byte    // 's' string, 'n' integer number, 'f' other number (unsupported), 'b' bool, 'l' list, 'o' object, 'z' null
	s     value   // string | *Term(SStr)
	n     value   // int64 | *Term(SInt)
	b     value   // bool | *Term(SBool)
	items []*jval // list
	keys  []string
	vals  []*jval
}

func (j *jval) get(k string) *jval {
	for i, kk := range j.keys {
		if kk == k {
			return j.vals[i]
		}
	}
	return nil
}

func (j *jval) set(k string, v *jval) {
	for i, kk := range j.keys {
		if kk == k {
			j.vals[i] = v
			return
		}
	}
	j.keys = append(j.keys, k)
	j.vals = append(j.vals, v)
}

func (j *jval) sortKeys() {
	idx := make([]int, len(j.keys))
	for i := range idx {
		idx[i] = i
	}
	sort.SliceStable(idx, func(a, b int) bool { return j.keys[idx[a]] < j.keys[idx[b]] })
	ks := make([]string, len(idx))
	vs := make([]*jval, len(idx))
	for i, k := range idx {
		ks[i], vs[i] = j.keys[k], j.vals[k]
	}
	j.keys, j.vals = ks, vs
}

func (j *jval) kindName() string {
	switch j.kind {
	case 's':
		return "string"
	case 'n', 'f':
		return "number"
	case 'b':
		return "bool"
	case 'l':
		return "array"
	case 'o':
		return "object"
	}
	return "null"
}

var (
	anyT       = types.NewInterfaceType(nil, nil).Complete()
	sliceAnyT  = types.NewSlice(anyT)
	mapStrAnyT = types.NewMap(types.Typ[types.String], anyT)
)

// toJSON models json.Marshal of an interpreter value of static type t.
func toJSON(fr *frame, t types.Type, v value) *jval {
	switch x := v.(type) {
	case iface:
		if x.t == nil {
			return &jval{kind: 'z'}
		}
		return toJSON(fr, x.t, x.v)
	case string:
		return &jval{kind: 's', s: x}
	case bool:
		return &jval{kind: 'b', b: x}
	case *Term:
		switch x.Sort {
		case SStr:
			return &jval{kind: 's', s: x}
		case SInt:
			return &jval{kind: 'n', n: x}
		case SBool:
			return &jval{kind: 'b', b: x}
		}
	case symFloat:
		return &jval{kind: 'n', n: x.t}
	case int, int8, int16, int32, int64:
		return &jval{kind: 'n', n: asInt64(x)}
	case uint, uint8, uint16, uint32, uint64:
		return &jval{kind: 'n', n: int64(asUint64(x))}
	case float64:
		if x == float64(int64(x)) && x > -9e15 && x < 9e15 {
			return &jval{kind: 'n', n: int64(x)}
		}
		panic(unmodelled{"JWT model: non-integral float claim"})
	case *value:
		if x == nil {
			return &jval{kind: 'z'}
		}
		var et types.Type
		if t != nil {
			if pt, ok := t.Underlying().(*types.Pointer); ok {
				et = pt.Elem()
			}
		}
		return toJSON(fr, et, *x)
	case []value:
		if x == nil {
			return &jval{kind: 'z'}
		}
		var et types.Type
		if t != nil {
			if st, ok := t.Underlying().(*types.Slice); ok {
				et = st.Elem()
				if b, ok := et.Underlying().(*types.Basic); ok && b.Kind() == types.Uint8 {
					panic(unmodelled{"JWT model: []byte claim"})
				}
			}
		}
		out := &jval{kind: 'l', items: []*jval{}}
		for _, e := range x {
			out.items = append(out.items, toJSON(fr, et, e))
		}
		return out
	case *omap:
		if x == nil {
			return &jval{kind: 'z'}
		}
		var et types.Type
		if t != nil {
			if mt, ok := t.Underlying().(*types.Map); ok {
				et = mt.Elem()
			}
		}
		out := &jval{kind: 'o'}
		for _, e := range x.entries {
			k, ok := e.key.(string)
			if !ok {
				panic(unmodelled{"JWT model: symbolic JSON object key"})
			}
			out.set(k, toJSON(fr, et, e.val))
		}
		out.sortKeys() // encoding/json sorts map keys
		return out
	}
	panic(unmodelled{fmt.Sprintf("JWT model: json.Marshal of %T (%v)", v, t)})
}

// number modes of the go-jose json fork
const (
	numFloat      = 0
	numJSONNumber = 1
	numIntOrFloat = 2
)

// fromJSONAny models decoding into an interface{}.
func fromJSONAny(fr *frame, j *jval, mode int64) value {
	switch j.kind {
	case 's':
		return iface{types.Typ[types.String], j.s}
	case 'b':
		return iface{types.Typ[types.Bool], j.b}
	case 'n':
		switch mode {
		case numIntOrFloat:
			return iface{types.Typ[types.Int64], j.n}
		case numFloat:
			if t, ok := j.n.(*Term); ok {
				fr.i.m.note("A-jose/json: integer claims are within ±2^53, so their float64 decoding is exact")
				return iface{types.Typ[types.Float64], symFloat{t: t}}
			}
			return iface{types.Typ[types.Float64], float64(j.n.(int64))}
		}
		panic(unmodelled{"JWT model: json.Number decoding"})
	case 'f':
		panic(unmodelled{"JWT model: non-integer JSON number"})
	case 'l':
		out := make([]value, len(j.items))
		for i, e := range j.items {
			out[i] = fromJSONAny(fr, e, mode)
		}
		return iface{sliceAnyT, out}
	case 'o':
		m := &omap{keyType: types.Typ[types.String]}
		for i, k := range j.keys {
			m.entries = append(m.entries, &omapEntry{k, fromJSONAny(fr, j.vals[i], mode)})
		}
		return iface{mapStrAnyT, m}
	}
	return iface{}
}

// parseJSONText parses concrete JSON text into a jval (duplicate object keys are an
// error, as in the go-jose json fork).
func parseJSONText(b []byte) (*jval, error) {
	dec := json.NewDecoder(bytes.NewReader(b))
	dec.UseNumber()
	v, err := parseJSONValue(dec)
	if err != nil {
		return nil, err
	}
	if _, err := dec.Token(); err != io.EOF {
		return nil, fmt.Errorf("invalid character after top-level value")
	}
	return v, nil
}

func parseJSONValue(dec *json.Decoder) (*jval, error) {
	tok, err := dec.Token()
	if err != nil {
		return nil, err
	}
	switch x := tok.(type) {
	case json.Delim:
		switch x {
		case '{':
			out := &jval{kind: 'o'}
			for dec.More() {
				kt, err := dec.Token()
				if err != nil {
					return nil, err
				}
				k, _ := kt.(string)
				if out.get(k) != nil {
					return nil, fmt.Errorf("go-jose/go-jose: duplicate key %q", k)
				}
				v, err := parseJSONValue(dec)
				if err != nil {
					return nil, err
				}
				out.set(k, v)
			}
			_, err := dec.Token()
			return out, err
		case '[':
			out := &jval{kind: 'l', items: []*jval{}}
			for dec.More() {
				v, err := parseJSONValue(dec)
				if err != nil {
					return nil, err
				}
				out.items = append(out.items, v)
			}
			_, err := dec.Token()
			return out, err
		}
		return nil, fmt.Errorf("unexpected delimiter")
	case string:
		return &jval{kind: 's', s: x}, nil
	case bool:
		return &jval{kind: 'b', b: x}, nil
	case json.Number:
		if n, err := strconv.ParseInt(string(x), 10, 64); err == nil {
			return &jval{kind: 'n', n: n}, nil
		}
		return &jval{kind: 'f', s: string(x)}, nil
	case nil:
		return &jval{kind: 'z'}, nil
	}
	return nil, fmt.Errorf("unexpected token")
}

// ---------------------------------------------------------------- state

type joseKeyMark struct {
	id   int
	kind string // "RSA", "P-256", "P-384", "P-521", "oct"
}

type joseSig struct {
	key  *joseKeyMark
	hdr  string // header part the signature was computed over
	pay  string // payload part
	fits bool   // the header algorithm fitted the signing key (a real signature of that algorithm exists)
}

type josePayload struct {
	j    *jval
	perr string // non-empty: the payload bytes are not valid JSON
}

type joseTok struct {
	hdrPart, payPart, sigPart string
	hdr                       *jval
	pay                       *josePayload
}

type joseState struct {
	nkey, npart int
	hdr         map[string]*jval
	pay         map[string]*josePayload
	sig         map[string]*joseSig
	toks        map[*value]*joseTok
	oct         map[string]*joseKeyMark // HMAC secrets by (concrete) content
}

func (m *Machine) jose() *joseState {
	if g := m.ghost["jose:state"]; len(g) == 1 {
		return g[0].(*joseState)
	}
	st := &joseState{hdr: map[string]*jval{}, pay: map[string]*josePayload{}, sig: map[string]*joseSig{}, toks: map[*value]*joseTok{}}
	m.ghost["jose:state"] = []value{st}
	m.note("A-jose: go-jose verifies signatures and pins the algorithm family to the type of the verification key as documented; " +
		"a signature part is valid only for the exact header and payload parts it was computed over, under the public key of the signing key, " +
		"and only if the header algorithm fitted the signing key (unforgeability; model validated against the real go-jose on every covered label)")
	return st
}

func (st *joseState) fresh(prefix string) string {
	st.npart++
	return fmt.Sprintf("zz%s%d", prefix, st.npart)
}

// ---------------------------------------------------------------- keys

func typeName(t types.Type) string {
	if t == nil {
		return "nil"
	}
	return types.TypeString(t, nil)
}

func (i *interpreter) joseNewKey(kind string) (priv, pub value) {
	st := i.m.jose()
	st.nkey++
	mark := &joseKeyMark{id: st.nkey, kind: kind}
	var markCell value = native{mark}
	switch kind {
	case "RSA":
		pubT := i.namedType("crypto/rsa", "PublicKey")
		privT := i.namedType("crypto/rsa", "PrivateKey")
		ps := zero(privT).(structure)
		in := ps[fieldIndex(privT, "PublicKey")].(structure)
		in[fieldIndex(pubT, "N")] = &markCell
		in[fieldIndex(pubT, "E")] = 65537
		var cell value = ps
		pubPtr := &ps[fieldIndex(privT, "PublicKey")]
		return iface{types.NewPointer(privT), &cell}, iface{types.NewPointer(pubT), pubPtr}
	case "P-256", "P-384", "P-521":
		pubT := i.namedType("crypto/ecdsa", "PublicKey")
		privT := i.namedType("crypto/ecdsa", "PrivateKey")
		ps := zero(privT).(structure)
		in := ps[fieldIndex(privT, "PublicKey")].(structure)
		in[fieldIndex(pubT, "X")] = &markCell
		var cell value = ps
		pubPtr := &ps[fieldIndex(privT, "PublicKey")]
		return iface{types.NewPointer(privT), &cell}, iface{types.NewPointer(pubT), pubPtr}
	}
	panic(unmodelled{"zzjwt.GenKey kind " + kind})
}

func markOfCell(v value) *joseKeyMark {
	p, ok := v.(*value)
	if !ok || p == nil {
		return nil
	}
	n, ok := (*p).(native)
	if !ok {
		return nil
	}
	mk, _ := n.v.(*joseKeyMark)
	return mk
}

// pubMark returns the identity of a public-key struct (rsa.PublicKey / ecdsa.PublicKey value).
func (i *interpreter) pubMark(tn string, s structure) *joseKeyMark {
	var mk *joseKeyMark
	switch tn {
	case "crypto/rsa.PublicKey":
		mk = markOfCell(s[fieldIndex(i.namedType("crypto/rsa", "PublicKey"), "N")])
	case "crypto/ecdsa.PublicKey":
		mk = markOfCell(s[fieldIndex(i.namedType("crypto/ecdsa", "PublicKey"), "X")])
	}
	if mk == nil {
		panic(unmodelled{"JWT model: key not created by zzjwt.GenKey"})
	}
	return mk
}

func derefStruct(v value) (structure, bool) {
	p, ok := v.(*value)
	if !ok || p == nil {
		return nil, false
	}
	s, ok := (*p).(structure)
	return s, ok
}

var (
	errJoseUnsupportedKey = "go-jose/go-jose: unsupported key type/format"
	errJoseUnsupportedAlg = "go-jose/go-jose: unknown/unsupported algorithm"
	errJoseCrypto         = "go-jose/go-jose: error in cryptographic primitive"
)

// verifKey models jose.newVerifier(tryJWKS(key, headers)): the identity of the public key
// that will check the signature, or an error text.
func (i *interpreter) verifKey(fr *frame, key iface, tok *joseTok) (*joseKeyMark, string) {
	for depth := 0; depth < 4; depth++ {
		switch tn := typeName(key.t); tn {
		case "*crypto/rsa.PublicKey", "*crypto/ecdsa.PublicKey":
			s, ok := derefStruct(key.v)
			if !ok {
				panic(targetPanic{iface{i.runtimeErrorString, "invalid memory address or nil pointer dereference (nil public key)"}})
			}
			return i.pubMark(tn[1:], s), ""
		case josePkg + ".JSONWebKey":
			key, _ = key.v.(structure)[fieldIndex(i.namedType(josePkg, "JSONWebKey"), "Key")].(iface)
		case "*" + josePkg + ".JSONWebKey":
			s, ok := derefStruct(key.v)
			if !ok {
				panic(targetPanic{iface{i.runtimeErrorString, "invalid memory address or nil pointer dereference (nil *JSONWebKey)"}})
			}
			key, _ = s[fieldIndex(i.namedType(josePkg, "JSONWebKey"), "Key")].(iface)
		case josePkg + ".JSONWebKeySet", "*" + josePkg + ".JSONWebKeySet":
			var s structure
			if tn[0] == '*' {
				var ok bool
				if s, ok = derefStruct(key.v); !ok {
					panic(targetPanic{iface{i.runtimeErrorString, "invalid memory address or nil pointer dereference (nil *JSONWebKeySet)"}})
				}
			} else {
				s = key.v.(structure)
			}
			kid := tok.hdr.get("kid")
			if kid == nil {
				return nil, errJoseUnsupportedKey
			}
			if !fr.truth(symNot(symEquals(fr, types.Typ[types.String], kid.s, ""))) {
				return nil, errJoseUnsupportedKey
			}
			keys := i.jwksKey(fr, s, kid.s)
			if len(keys) == 0 {
				return nil, errJoseUnsupportedKey
			}
			key, _ = keys[0].(structure)[fieldIndex(i.namedType(josePkg, "JSONWebKey"), "Key")].(iface)
		case "[]byte":
			return i.octMark(key.v), ""
		default:
			return nil, errJoseUnsupportedKey
		}
	}
	return nil, errJoseUnsupportedKey
}

func (i *interpreter) jwksKey(fr *frame, set structure, kid value) []value {
	setT := i.namedType(josePkg, "JSONWebKeySet")
	jwkT := i.namedType(josePkg, "JSONWebKey")
	keys, _ := set[fieldIndex(setT, "Keys")].([]value)
	var out []value
	for _, k := range keys {
		ks := k.(structure)
		if fr.truth(symEquals(fr, types.Typ[types.String], ks[fieldIndex(jwkT, "KeyID")], kid)) {
			out = append(out, load(jwkT, &k))
		}
	}
	return out
}

func algFamily(alg string) string {
	switch alg {
	case "RS256", "RS384", "RS512", "PS256", "PS384", "PS512":
		return "RSA"
	case "ES256":
		return "P-256"
	case "ES384":
		return "P-384"
	case "ES512":
		return "P-521"
	case "HS256", "HS384", "HS512":
		return "oct"
	}
	return ""
}

func isECKind(k string) bool { return strings.HasPrefix(k, "P-") }

// algFitsKey: a real signature of algorithm alg can be produced with / verified by a key of that kind.
func algFitsKey(alg, kind string) bool { return alg != "" && algFamily(alg) == kind }

// algAcceptedByVerifier: go-jose's verifier for that key type knows the algorithm
// (for ECDSA keys any ES* passes this gate; a wrong curve fails on the signature size).
func algAcceptedByVerifier(alg, kind string) bool {
	f := algFamily(alg)
	if kind == "RSA" {
		return f == "RSA"
	}
	if isECKind(kind) {
		return isECKind(f)
	}
	if kind == "oct" {
		return f == "oct" // an HMAC secret verifies HS* (and nothing else)
	}
	return false
}

// octMark: the identity of an HMAC secret is its (concrete) content.
func (i *interpreter) octMark(v value) *joseKeyMark {
	b, ok := concreteBytes(v)
	if !ok {
		panic(unmodelled{"JWT model: symbolic HMAC secret"})
	}
	st := i.m.jose()
	if st.oct == nil {
		st.oct = map[string]*joseKeyMark{}
	}
	if mk := st.oct[string(b)]; mk != nil {
		return mk
	}
	st.nkey++
	mk := &joseKeyMark{id: st.nkey, kind: "oct"}
	st.oct[string(b)] = mk
	return mk
}

func concreteAlg(j *jval) string {
	a := j.get("alg")
	if a == nil {
		return ""
	}
	s, ok := a.s.(string)
	if !ok {
		panic(unmodelled{"JWT model: symbolic alg header"})
	}
	return s
}

// verify models JSONWebSignature.Verify: "" when the signature is valid under key.
func (i *interpreter) joseVerify(fr *frame, tok *joseTok, key iface) string {
	st := i.m.jose()
	mk, e := i.verifKey(fr, key, tok)
	if e != "" {
		return e
	}
	alg := concreteAlg(tok.hdr)
	if !algAcceptedByVerifier(alg, mk.kind) {
		return errJoseCrypto
	}
	sg := st.sig[tok.sigPart]
	if sg == nil || !sg.fits || sg.hdr != tok.hdrPart || sg.pay != tok.payPart || sg.key != mk {
		return errJoseCrypto
	}
	return ""
}

// ---------------------------------------------------------------- unmarshalling

var (
	errUnmarshalAudience    = "go-jose/go-jose/jwt: expected string or array value to unmarshal to Audience"
	errUnmarshalNumericDate = "go-jose/go-jose/jwt: expected number value to unmarshal NumericDate"
)

// joseUnmarshal models json.Unmarshal(payload, dest) of the go-jose json fork; "" on success.
func (i *interpreter) joseUnmarshal(fr *frame, p *josePayload, dest iface, mode int64) string {
	if p.perr != "" {
		return p.perr
	}
	if dest.t == nil {
		return "json: Unmarshal(nil)"
	}
	pt, ok := dest.t.Underlying().(*types.Pointer)
	cell, _ := dest.v.(*value)
	if !ok || cell == nil {
		return "json: Unmarshal(non-pointer " + typeName(dest.t) + ")"
	}
	// a fosite type with its own UnmarshalJSON (token/jwt.MapClaims): run the real method on the payload
	if _, isNamed := pt.Elem().(*types.Named); isNamed && p.j.kind != 'z' {
		if sel := i.prog.MethodSets.MethodSet(dest.t).Lookup(nil, "UnmarshalJSON"); sel != nil {
			if fn := i.prog.MethodValue(sel); fn != nil && isInterpretedPath(fnPkgPath(fn)) {
				r := call(i, fr, 0, fn, []value{dest.v, native{p}})
				if ri, ok := r.(iface); ok && ri.t != nil {
					return "UnmarshalJSON: " + toString(errorText(fr, ri))
				}
				return ""
			}
		}
	}
	return i.joseDecodeInto(fr, p.j, pt.Elem(), cell, mode)
}

func errorText(fr *frame, e iface) value {
	if se, ok := e.v.(*symErr); ok {
		return se.msg
	}
	if n, ok := e.v.(native); ok {
		if ee, ok := n.v.(error); ok {
			return ee.Error()
		}
	}
	if r, ok := callMethodIfAny(fr, e, "Error"); ok {
		return r
	}
	return "error"
}

func (i *interpreter) joseDecodeInto(fr *frame, j *jval, t types.Type, cell *value, mode int64) string {
	if typeName(t) == joseJWTPkg+".Claims" {
		return i.joseFillClaims(fr, j, t, cell)
	}
	switch u := t.Underlying().(type) {
	case *types.Map:
		if b, ok := u.Key().Underlying().(*types.Basic); !ok || b.Kind() != types.String {
			break
		}
		if _, ok := u.Elem().Underlying().(*types.Interface); !ok {
			break
		}
		if j.kind == 'z' {
			*cell = (*omap)(nil)
			return ""
		}
		if j.kind != 'o' {
			return "json: cannot unmarshal " + j.kindName() + " into Go value of type " + typeName(t)
		}
		m, _ := (*cell).(*omap)
		if m == nil {
			m = &omap{keyType: u.Key()}
			*cell = m
		}
		for k, key := range j.keys {
			m.insert(fr, key, fromJSONAny(fr, j.vals[k], mode))
		}
		return ""
	case *types.Interface:
		if u.NumMethods() == 0 {
			*cell = fromJSONAny(fr, j, mode)
			return ""
		}
	}
	panic(unmodelled{"JWT model: json.Unmarshal into " + typeName(t)})
}

// joseFillClaims: decoding into go-jose's jwt.Claims struct (case-sensitive member names).
func (i *interpreter) joseFillClaims(fr *frame, j *jval, t types.Type, cell *value) string {
	if j.kind == 'z' {
		return ""
	}
	if j.kind != 'o' {
		return "json: cannot unmarshal " + j.kindName() + " into Go value of type jwt.Claims"
	}
	s := (*cell).(structure)
	firstErr := ""
	fail := func(e string) {
		if firstErr == "" {
			firstErr = e
		}
	}
	for k, key := range j.keys {
		v := j.vals[k]
		if v.kind == 'z' {
			continue
		}
		switch key {
		case "iss", "sub", "jti":
			f := map[string]string{"iss": "Issuer", "sub": "Subject", "jti": "ID"}[key]
			if v.kind != 's' {
				fail("json: cannot unmarshal " + v.kindName() + " into Go struct field Claims." + key + " of type string")
				continue
			}
			s[fieldIndex(t, f)] = v.s
		case "aud":
			switch v.kind {
			case 's':
				s[fieldIndex(t, "Audience")] = []value{v.s}
			case 'l':
				out := make([]value, 0, len(v.items))
				bad := false
				for _, e := range v.items {
					if e.kind != 's' {
						bad = true
						break
					}
					out = append(out, e.s)
				}
				if bad {
					fail(errUnmarshalAudience)
					continue
				}
				s[fieldIndex(t, "Audience")] = out
			default:
				fail(errUnmarshalAudience)
			}
		case "exp", "nbf", "iat":
			f := map[string]string{"exp": "Expiry", "nbf": "NotBefore", "iat": "IssuedAt"}[key]
			if v.kind == 'f' {
				panic(unmodelled{"JWT model: non-integer NumericDate"})
			}
			if v.kind != 'n' {
				fail(errUnmarshalNumericDate)
				continue
			}
			nd := new(value)
			*nd = v.n
			s[fieldIndex(t, f)] = nd
		}
	}
	return firstErr
}

// ---------------------------------------------------------------- parsing

func stripWS(s string) string {
	return strings.Map(func(r rune) rune {
		if unicode.IsSpace(r) {
			return -1
		}
		return r
	}, s)
}

func b64urlDecode(s string) ([]byte, error) {
	return base64.RawURLEncoding.DecodeString(strings.TrimRight(s, "="))
}

// joseParse models jwt.ParseSigned for a concrete compact serialization.
func (i *interpreter) joseParse(fr *frame, raw string) (*joseTok, string) {
	st := i.m.jose()
	raw = stripWS(raw)
	if strings.HasPrefix(raw, "{") {
		panic(unmodelled{"JWT model: JSON (non-compact) JWS serialization"})
	}
	parts := strings.Split(raw, ".")
	if len(parts) != 3 {
		return nil, "go-jose/go-jose: compact JWS format must have three parts"
	}
	tok := &joseTok{hdrPart: parts[0], payPart: parts[1], sigPart: parts[2]}
	if h, ok := st.hdr[parts[0]]; ok {
		tok.hdr = h
	} else {
		b, err := b64urlDecode(parts[0])
		if err != nil {
			return nil, err.Error()
		}
		if len(b) == 0 {
			tok.hdr = &jval{kind: 'o'}
		} else {
			h, err := parseJSONText(b)
			if err != nil {
				return nil, err.Error()
			}
			if h.kind != 'o' {
				return nil, "json: cannot unmarshal " + h.kindName() + " into Go value of type jose.rawHeader"
			}
			tok.hdr = h
		}
	}
	if p, ok := st.pay[parts[1]]; ok {
		tok.pay = p
	} else {
		b, err := b64urlDecode(parts[1])
		if err != nil {
			return nil, err.Error()
		}
		if j, err := parseJSONText(b); err != nil {
			tok.pay = &josePayload{perr: err.Error()}
		} else {
			tok.pay = &josePayload{j: j}
		}
	}
	if _, ok := st.sig[parts[2]]; !ok {
		if _, err := b64urlDecode(parts[2]); err != nil {
			return nil, err.Error()
		}
		i.m.note("A-jose: a signature part that was not produced by signing verifies under no key (unforgeability)")
	}
	// header sanitisation (rawHeader.sanitized)
	for k, key := range tok.hdr.keys {
		v := tok.hdr.vals[k]
		switch key {
		case "alg", "kid":
			if v.kind == 'z' {
				continue
			}
			if v.kind != 's' {
				return nil, "failed to unmarshal " + map[string]string{"alg": "algorithm", "kid": "key ID"}[key] + ": json: cannot unmarshal " + v.kindName() + " into Go value of type string"
			}
		case "jwk", "x5c", "nonce", "crit", "b64":
			panic(unmodelled{"JWT model: header " + key})
		}
	}
	return tok, ""
}

func (i *interpreter) joseHeaderStruct(fr *frame, h *jval) value {
	t := i.namedType(josePkg, "Header")
	s := zero(t).(structure)
	var extra *omap
	for k, key := range h.keys {
		v := h.vals[k]
		if v.kind == 'z' {
			continue
		}
		switch key {
		case "alg":
			s[fieldIndex(t, "Algorithm")] = v.s
		case "kid":
			s[fieldIndex(t, "KeyID")] = v.s
		default:
			if extra == nil {
				extra = &omap{keyType: i.namedType(josePkg, "HeaderKey")}
			}
			extra.entries = append(extra.entries, &omapEntry{key, fromJSONAny(fr, v, numFloat)})
		}
	}
	s[fieldIndex(t, "ExtraHeaders")] = extra
	return s
}

// ---------------------------------------------------------------- signing (token generation by fosite)

type joseSigner struct {
	alg   string
	key   *joseKeyMark
	kid   value
	extra *omap
}

type joseBuilder struct {
	sg      *joseSigner
	payload *jval
}

type joseReader struct{ data value }

type joseDecoder struct {
	data value
	mode int64
}

// signingKey models jose.makeJWSRecipient: key identity and key id, or an error text.
func (i *interpreter) signingKey(fr *frame, alg string, key iface) (mk *joseKeyMark, kid value, e string) {
	kid = ""
	for depth := 0; depth < 4; depth++ {
		switch tn := typeName(key.t); tn {
		case "*crypto/rsa.PrivateKey", "*crypto/ecdsa.PrivateKey":
			s, ok := derefStruct(key.v)
			if !ok {
				return nil, kid, "invalid private key"
			}
			var pub structure
			if tn == "*crypto/rsa.PrivateKey" {
				pub = s[fieldIndex(i.namedType("crypto/rsa", "PrivateKey"), "PublicKey")].(structure)
				mk = i.pubMark("crypto/rsa.PublicKey", pub)
				if algFamily(alg) != "RSA" {
					return nil, kid, errJoseUnsupportedAlg
				}
			} else {
				pub = s[fieldIndex(i.namedType("crypto/ecdsa", "PrivateKey"), "PublicKey")].(structure)
				mk = i.pubMark("crypto/ecdsa.PublicKey", pub)
				if !isECKind(algFamily(alg)) {
					return nil, kid, errJoseUnsupportedAlg
				}
			}
			return mk, kid, ""
		case josePkg + ".JSONWebKey", "*" + josePkg + ".JSONWebKey":
			var s structure
			if tn[0] == '*' {
				var ok bool
				if s, ok = derefStruct(key.v); !ok {
					panic(targetPanic{iface{i.runtimeErrorString, "invalid memory address or nil pointer dereference (nil *JSONWebKey)"}})
				}
			} else {
				s = key.v.(structure)
			}
			jt := i.namedType(josePkg, "JSONWebKey")
			kid = s[fieldIndex(jt, "KeyID")]
			key, _ = s[fieldIndex(jt, "Key")].(iface)
		case "[]byte":
			panic(unmodelled{"JWT model: signing with an HMAC secret through go-jose"})
		default:
			return nil, kid, errJoseUnsupportedKey
		}
	}
	return nil, kid, errJoseUnsupportedKey
}

func (i *interpreter) joseRegister(hdr, pay *jval, mk *joseKeyMark, fits bool, signed bool) string {
	st := i.m.jose()
	hp, pp := st.fresh("H"), st.fresh("P")
	st.hdr[hp] = hdr
	st.pay[pp] = &josePayload{j: pay}
	sp := ""
	if signed {
		sp = st.fresh("S")
		st.sig[sp] = &joseSig{key: mk, hdr: hp, pay: pp, fits: fits}
	}
	return hp + "." + pp + "." + sp
}

func joseErr(msg string) value {
	if msg == "" {
		return iface{}
	}
	return mkSymErr("jose", msg)
}

func init() {
	// ---- harness library interception
	overrideIntrinsics[zzjwtPkg+".GenKey"] = func(fr *frame, a []value) value {
		kind, ok := a[0].(string)
		if !ok {
			panic("zzjwt.GenKey: kind must be concrete")
		}
		priv, pub := fr.i.joseNewKey(kind)
		return tuple{priv, pub}
	}
	overrideIntrinsics[zzjwtPkg+".Sign"] = func(fr *frame, a []value) value {
		i := fr.i
		t := fr.fn.Signature.Params().At(0).Type()
		s := a[0].(structure)
		alg, ok := s[fieldIndex(t, "Alg")].(string)
		if !ok {
			panic("zzjwt.Sign: Alg must be concrete (use zz.Choice)")
		}
		hdr := &jval{kind: 'o'}
		if hm, _ := s[fieldIndex(t, "Header")].(*omap); hm != nil {
			hdr = toJSON(fr, mapStrAnyT, hm)
		}
		if alg != "" {
			hdr.set("alg", &jval{kind: 's', s: alg})
		}
		// the kid header is written only when non-empty (a symbolic kid forks)
		kid := s[fieldIndex(t, "Kid")]
		if fr.truth(symNot(symEquals(fr, types.Typ[types.String], kid, ""))) {
			hdr.set("kid", &jval{kind: 's', s: kid})
		}
		hdr.sortKeys()
		cm, _ := s[fieldIndex(t, "Claims")].(*omap)
		pay := toJSON(fr, mapStrAnyT, cm)
		key, _ := s[fieldIndex(t, "Key")].(iface)
		var mk *joseKeyMark
		fits, signed := false, true
		switch tn := typeName(key.t); tn {
		case "nil":
			signed = false
		case "[]byte":
			mk = i.octMark(key.v)
			fits = algFitsKey(alg, "oct")
		case "*crypto/rsa.PrivateKey", "*crypto/ecdsa.PrivateKey":
			ps, ok := derefStruct(key.v)
			if !ok {
				panic("zzjwt.Sign: nil key")
			}
			if tn == "*crypto/rsa.PrivateKey" {
				mk = i.pubMark("crypto/rsa.PublicKey", ps[fieldIndex(i.namedType("crypto/rsa", "PrivateKey"), "PublicKey")].(structure))
			} else {
				mk = i.pubMark("crypto/ecdsa.PublicKey", ps[fieldIndex(i.namedType("crypto/ecdsa", "PrivateKey"), "PublicKey")].(structure))
			}
			fits = algFitsKey(alg, mk.kind)
			if alg == "none" {
				signed = false
			}
		default:
			panic("zzjwt.Sign: unsupported key type " + tn)
		}
		return i.joseRegister(hdr, pay, mk, fits, signed)
	}

	// ---- parsing / verification
	reg(joseJWTPkg+".ParseSigned", func(fr *frame, a []value) value {
		i := fr.i
		raw, ok := a[0].(string)
		if !ok {
			if t, isT := a[0].(*Term); isT && t.IsConst() {
				raw = t.S
			} else {
				panic(unmodelled{"jwt.ParseSigned on a symbolic string (tokens are presented by spec)"})
			}
		}
		tok, e := i.joseParse(fr, raw)
		if e != "" {
			return tuple{(*value)(nil), joseErr(e)}
		}
		t := i.namedType(joseJWTPkg, "JSONWebToken")
		s := zero(t).(structure)
		s[fieldIndex(t, "Headers")] = []value{i.joseHeaderStruct(fr, tok.hdr)}
		var cell value = s
		i.m.jose().toks[&cell] = tok
		return tuple{&cell, iface{}}
	})
	tokOf := func(fr *frame, v value) *joseTok {
		p, _ := v.(*value)
		if p == nil {
			panic(targetPanic{iface{fr.i.runtimeErrorString, "invalid memory address or nil pointer dereference (nil *JSONWebToken)"}})
		}
		tok := fr.i.m.jose().toks[p]
		if tok == nil {
			panic(unmodelled{"JWT model: JSONWebToken not produced by jwt.ParseSigned"})
		}
		return tok
	}
	unmarshalAll := func(fr *frame, tok *joseTok, dests []value) value {
		for _, d := range dests {
			if e := fr.i.joseUnmarshal(fr, tok.pay, d.(iface), numFloat); e != "" {
				return joseErr(e)
			}
		}
		return iface{}
	}
	reg("(*"+joseJWTPkg+".JSONWebToken).Claims", func(fr *frame, a []value) value {
		tok := tokOf(fr, a[0])
		if e := fr.i.joseVerify(fr, tok, a[1].(iface)); e != "" {
			return joseErr(e)
		}
		dests, _ := a[2].([]value)
		return unmarshalAll(fr, tok, dests)
	})
	reg("(*"+joseJWTPkg+".JSONWebToken).UnsafeClaimsWithoutVerification", func(fr *frame, a []value) value {
		tok := tokOf(fr, a[0])
		dests, _ := a[1].([]value)
		return unmarshalAll(fr, tok, dests)
	})
	reg("(*"+joseJWTPkg+".NumericDate).Time", func(fr *frame, a []value) value {
		p, _ := a[0].(*value)
		if p == nil {
			return timeVal{mkBig(zeroTimeBig)}
		}
		return timeVal{mkMul(toTerm(*p), mkInt(1e9))}
	})
	reg("("+joseJWTPkg+".Audience).Contains", func(fr *frame, a []value) value {
		xs, _ := a[0].([]value)
		var alts []*Term
		for _, x := range xs {
			alts = append(alts, toTerm(symEquals(fr, types.Typ[types.String], x, a[1])))
		}
		return boolVal(mkOr(alts...))
	})
	reg("(*"+josePkg+".JSONWebKeySet).Key", func(fr *frame, a []value) value {
		s, ok := derefStruct(a[0])
		if !ok {
			panic(targetPanic{iface{fr.i.runtimeErrorString, "invalid memory address or nil pointer dereference (nil *JSONWebKeySet)"}})
		}
		return fr.i.jwksKey(fr, s, a[1])
	})

	// ---- go-jose json fork used by fosite's MapClaims.UnmarshalJSON
	reg("bytes.NewReader", func(fr *frame, a []value) value { return native{&joseReader{a[0]}} })
	reg(joseJSON+".NewDecoder", func(fr *frame, a []value) value {
		it := a[0].(iface)
		n, _ := it.v.(native)
		r, ok := n.v.(*joseReader)
		if !ok {
			panic(unmodelled{"go-jose json.NewDecoder on a reader other than bytes.NewReader"})
		}
		return native{&joseDecoder{data: r.data}}
	})
	reg("(*"+joseJSON+".Decoder).SetNumberType", func(fr *frame, a []value) value {
		a[0].(native).v.(*joseDecoder).mode = asInt64(a[1])
		return nil
	})
	reg("(*"+joseJSON+".Decoder).UseNumber", func(fr *frame, a []value) value {
		a[0].(native).v.(*joseDecoder).mode = numJSONNumber
		return nil
	})
	reg("(*"+joseJSON+".Decoder).Decode", func(fr *frame, a []value) value {
		d := a[0].(native).v.(*joseDecoder)
		var p *josePayload
		if n, ok := d.data.(native); ok {
			p, _ = n.v.(*josePayload)
		}
		if p == nil {
			b, ok := concreteBytes(d.data)
			if !ok {
				panic(unmodelled{"go-jose json.Decoder on symbolic bytes"})
			}
			if j, err := parseJSONText(b); err != nil {
				p = &josePayload{perr: err.Error()}
			} else {
				p = &josePayload{j: j}
			}
		}
		dest := a[1].(iface)
		if p.perr != "" {
			return joseErr(p.perr)
		}
		pt, ok := dest.t.Underlying().(*types.Pointer)
		cell, _ := dest.v.(*value)
		if !ok || cell == nil {
			return joseErr("json: Unmarshal(non-pointer " + typeName(dest.t) + ")")
		}
		return joseErr(fr.i.joseDecodeInto(fr, p.j, pt.Elem(), cell, d.mode))
	})

	// ---- token generation: jose.NewSigner + jwt.Signed(..).Claims(..).CompactSerialize()
	reg(josePkg+".NewSigner", func(fr *frame, a []value) value {
		i := fr.i
		skT := i.namedType(josePkg, "SigningKey")
		sk := a[0].(structure)
		alg, ok := sk[fieldIndex(skT, "Algorithm")].(string)
		if !ok {
			panic(unmodelled{"JWT model: symbolic signing algorithm"})
		}
		key, _ := sk[fieldIndex(skT, "Key")].(iface)
		mk, kid, e := i.signingKey(fr, alg, key)
		if e != "" {
			return tuple{iface{}, joseErr(e)}
		}
		sg := &joseSigner{alg: alg, key: mk, kid: kid}
		if os, ok := derefStruct(a[1]); ok {
			oT := i.namedType(josePkg, "SignerOptions")
			sg.extra, _ = os[fieldIndex(oT, "ExtraHeaders")].(*omap)
			if b, _ := os[fieldIndex(oT, "EmbedJWK")].(bool); b {
				panic(unmodelled{"JWT model: EmbedJWK"})
			}
			if ns, _ := os[fieldIndex(oT, "NonceSource")].(iface); ns.t != nil {
				panic(unmodelled{"JWT model: NonceSource"})
			}
		}
		return tuple{iface{t: nativeAnyT, v: native{sg}}, iface{}}
	})
	reg(joseJWTPkg+".Signed", func(fr *frame, a []value) value {
		n, _ := a[0].(iface).v.(native)
		sg, ok := n.v.(*joseSigner)
		if !ok {
			panic(unmodelled{"jwt.Signed with a signer not made by jose.NewSigner"})
		}
		return iface{t: nativeAnyT, v: native{&joseBuilder{sg: sg}}}
	})
	nativeMethodIntrinsics["*interp.joseBuilder.Claims"] = func(fr *frame, a []value) value {
		b := a[0].(native).v.(*joseBuilder)
		it := a[1].(iface)
		j := toJSON(fr, it.t, it.v)
		if j.kind != 'o' {
			panic(unmodelled{"JWT model: non-object claims"})
		}
		nb := &joseBuilder{sg: b.sg, payload: j}
		if b.payload != nil {
			// go-jose merges successive claim sets
			nb.payload = &jval{kind: 'o', keys: append([]string(nil), b.payload.keys...), vals: append([]*jval(nil), b.payload.vals...)}
			for k, key := range j.keys {
				nb.payload.set(key, j.vals[k])
			}
			nb.payload.sortKeys()
		}
		return iface{t: nativeAnyT, v: native{nb}}
	}
	nativeMethodIntrinsics["*interp.joseBuilder.CompactSerialize"] = func(fr *frame, a []value) value {
		i := fr.i
		b := a[0].(native).v.(*joseBuilder)
		if b.payload == nil {
			return tuple{"", joseErr("go-jose/go-jose/jwt: no claims given")}
		}
		if isECKind(b.sg.key.kind) && algFamily(b.sg.alg) != b.sg.key.kind {
			return tuple{"", joseErr("go-jose/go-jose: invalid curve for the signing algorithm")}
		}
		hdr := &jval{kind: 'o'}
		hdr.set("alg", &jval{kind: 's', s: b.sg.alg})
		if fr.truth(symNot(symEquals(fr, types.Typ[types.String], b.sg.kid, ""))) {
			hdr.set("kid", &jval{kind: 's', s: b.sg.kid})
		}
		if b.sg.extra != nil {
			ex := toJSON(fr, mapStrAnyT, b.sg.extra)
			for k, key := range ex.keys {
				switch key {
				case "jwk", "x5c", "nonce", "crit", "b64":
					panic(unmodelled{"JWT model: header " + key})
				}
				hdr.set(key, ex.vals[k])
			}
		}
		hdr.sortKeys()
		fits := algFitsKey(concreteAlg(hdr), b.sg.key.kind)
		i.m.note("A-jose/json: a JWT generated through go-jose decodes to the JSON image of the claims it was given ([]string -> list, int64 -> number)")
		return tuple{i.joseRegister(hdr, b.payload, b.sg.key, fits, true), iface{}}
	}
}

// ---------------------------------------------------------------- reflect shim: addressable Elem()
//
// fosite's token/jwt.pointer does reflect.New(T).Elem().Set(reflect.ValueOf(v)). The fork's shim
// returns a copy from Elem(), so Set had nothing to write to. The layer below makes the value
// returned by (reflect.Value).Elem() on a non-nil pointer carry the address (payload reflAddr);
// every registered reflect.Value intrinsic unwraps it first, so all other behaviour is unchanged.

type reflAddr struct{ p *value }

func reflUnwrap(v value) value {
	if s, ok := v.(structure); ok && len(s) == 2 {
		if a, ok := s[1].(reflAddr); ok {
			return structure{s[0], *a.p}
		}
	}
	return v
}

func init() {
	for _, n := range []string{"(reflect.Value).Kind", "(reflect.Value).Type", "(reflect.Value).Interface", "(reflect.Value).IsNil",
		"(reflect.Value).IsValid", "(reflect.Value).Len"} {
		old := intrinsics[n]
		if old == nil {
			continue
		}
		reg(n, func(fr *frame, a []value) value {
			b := append([]value(nil), a...)
			b[0] = reflUnwrap(b[0])
			return old(fr, b)
		})
	}
	oldElem := intrinsics["(reflect.Value).Elem"]
	reg("(reflect.Value).Elem", func(fr *frame, a []value) value {
		recv := reflUnwrap(a[0])
		if p, ok := rV2V(recv).(*value); ok && p != nil {
			if pt, ok := rV2T(recv).t.Underlying().(*types.Pointer); ok {
				return structure{rtype{pt.Elem()}, reflAddr{p}}
			}
		}
		return oldElem(fr, []value{recv})
	})
	oldSet := intrinsics["(reflect.Value).Set"]
	reg("(reflect.Value).Set", func(fr *frame, a []value) value {
		if s, ok := a[0].(structure); ok && len(s) == 2 {
			if ad, ok := s[1].(reflAddr); ok {
				store(rV2T(a[0]).t, ad.p, rV2V(reflUnwrap(a[1])))
				return nil
			}
		}
		return oldSet(fr, []value{a[0], reflUnwrap(a[1])})
	})
}
