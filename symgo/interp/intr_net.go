package interp

// net/url, net/http, net: url.Values / http.Header are interpreter maps of
// string -> []string; *url.URL and *http.Request are interpreter structs.

import (
	"fmt"
	"go/types"
	"net"
	"net/http"
	"net/url"
	"sort"
	"strings"
)

func (i *interpreter) namedType(pkg, name string) types.Type {
	p := i.prog.ImportedPackage(pkg)
	if p == nil {
		panic(unmodelled{"package not loaded: " + pkg})
	}
	return p.Type(name).Type()
}

func fieldIndex(t types.Type, name string) int {
	st := t.Underlying().(*types.Struct)
	for k := 0; k < st.NumFields(); k++ {
		if st.Field(k).Name() == name {
			return k
		}
	}
	panic("no field " + name + " in " + t.String())
}

// fieldOf returns the cell of field name in the struct pointed to by p.
func (i *interpreter) fieldOf(p *value, pkg, typ, name string) *value {
	t := i.namedType(pkg, typ)
	return &(*p).(structure)[fieldIndex(t, name)]
}

func valuesGet(fr *frame, m *omap, key value) value {
	if m == nil {
		return ""
	}
	v, ok := m.lookup(fr, key)
	if !ok {
		return ""
	}
	vs := v.([]value)
	if len(vs) == 0 {
		return ""
	}
	return vs[0]
}

// newURLStruct builds the interpreter representation of a parsed URL.
func (i *interpreter) newURLStruct(u *url.URL) *value {
	t := i.namedType("net/url", "URL")
	s := zero(t).(structure)
	set := func(name string, v value) { s[fieldIndex(t, name)] = v }
	set("Scheme", u.Scheme)
	set("Opaque", u.Opaque)
	set("Host", u.Host)
	set("Path", u.Path)
	set("RawPath", u.RawPath)
	set("OmitHost", u.OmitHost)
	set("ForceQuery", u.ForceQuery)
	set("RawQuery", u.RawQuery)
	set("Fragment", u.Fragment)
	set("RawFragment", u.RawFragment)
	if u.User != nil {
		var cell value = native{u.User}
		set("User", &cell)
	}
	var v value = s
	return &v
}

// nativeURL rebuilds a *url.URL from the interpreter struct (all fields concrete).
func (i *interpreter) nativeURL(p *value) (*url.URL, bool) {
	t := i.namedType("net/url", "URL")
	s := (*p).(structure)
	get := func(name string) value { return s[fieldIndex(t, name)] }
	u := &url.URL{}
	str := func(name string, dst *string) bool {
		v, ok := get(name).(string)
		*dst = v
		return ok
	}
	ok := str("Scheme", &u.Scheme) && str("Opaque", &u.Opaque) && str("Host", &u.Host) && str("Path", &u.Path) &&
		str("RawPath", &u.RawPath) && str("RawQuery", &u.RawQuery) && str("Fragment", &u.Fragment) && str("RawFragment", &u.RawFragment)
	if !ok {
		return nil, false
	}
	u.OmitHost, _ = get("OmitHost").(bool)
	u.ForceQuery, _ = get("ForceQuery").(bool)
	if up, _ := get("User").(*value); up != nil {
		if n, ok := (*up).(native); ok {
			u.User, _ = n.v.(*url.Userinfo)
		}
	}
	return u, true
}

func valuesToNative(m *omap) (url.Values, bool) {
	out := url.Values{}
	if m == nil {
		return out, true
	}
	for _, e := range m.entries {
		k, ok := e.key.(string)
		if !ok {
			return nil, false
		}
		for _, v := range e.val.([]value) {
			s, ok := v.(string)
			if !ok {
				return nil, false
			}
			out[k] = append(out[k], s)
		}
		if len(e.val.([]value)) == 0 {
			out[k] = []string{}
		}
	}
	return out, true
}

func valuesFromNative(vs map[string][]string) *omap {
	m := &omap{keyType: types.Typ[types.String]}
	var keys []string
	for k := range vs {
		keys = append(keys, k)
	}
	sort.Strings(keys)
	for _, k := range keys {
		var xs []value
		for _, s := range vs[k] {
			xs = append(xs, s)
		}
		m.entries = append(m.entries, &omapEntry{k, xs})
	}
	return m
}

func init() {
	// ---- url.Values
	reg("(net/url.Values).Get", func(fr *frame, a []value) value { return valuesGet(fr, a[0].(*omap), a[1]) })
	reg("(net/url.Values).Has", func(fr *frame, a []value) value {
		_, ok := a[0].(*omap).lookup(fr, a[1])
		return ok
	})
	reg("(net/url.Values).Set", func(fr *frame, a []value) value {
		a[0].(*omap).insert(fr, a[1], []value{a[2]})
		return nil
	})
	reg("(net/url.Values).Add", func(fr *frame, a []value) value {
		m := a[0].(*omap)
		cur, _ := m.lookup(fr, a[1])
		var xs []value
		if cur != nil {
			xs = cur.([]value)
		}
		m.insert(fr, a[1], append(xs[:len(xs):len(xs)], a[2]))
		return nil
	})
	reg("(net/url.Values).Del", func(fr *frame, a []value) value {
		a[0].(*omap).delete(fr, a[1])
		return nil
	})
	reg("(net/url.Values).Encode", func(fr *frame, a []value) value {
		m := a[0].(*omap)
		if vs, ok := valuesToNative(m); ok {
			return vs.Encode()
		}
		// symbolic: keys must be concrete; values are query-escaped through a UF that is the
		// identity on unreserved characters
		type kv struct {
			k string
			v []value
		}
		var kvs []kv
		for _, e := range m.entries {
			k, ok := e.key.(string)
			if !ok {
				panic(unmodelled{"url.Values.Encode with symbolic key"})
			}
			kvs = append(kvs, kv{k, e.val.([]value)})
		}
		sort.Slice(kvs, func(i, j int) bool { return kvs[i].k < kvs[j].k })
		var parts []*Term
		for _, e := range kvs {
			for _, v := range e.v {
				if len(parts) > 0 {
					parts = append(parts, mkStr("&"))
				}
				parts = append(parts, mkStr(url.QueryEscape(e.k)+"="), queryEscapeTerm(fr, strArg(v)))
			}
		}
		return strVal(mkConcat(parts...))
	})

	// ---- http.Header (keys are canonicalised; harnesses use canonical constant keys)
	reg("(net/http.Header).Get", func(fr *frame, a []value) value {
		return valuesGet(fr, a[0].(*omap), canonKey(a[1]))
	})
	reg("(net/http.Header).Values", func(fr *frame, a []value) value {
		v, _ := a[0].(*omap).lookup(fr, canonKey(a[1]))
		if v == nil {
			return []value(nil)
		}
		return v
	})
	reg("(net/http.Header).Set", func(fr *frame, a []value) value {
		a[0].(*omap).insert(fr, canonKey(a[1]), []value{a[2]})
		return nil
	})
	reg("(net/http.Header).Add", func(fr *frame, a []value) value {
		m := a[0].(*omap)
		k := canonKey(a[1])
		cur, _ := m.lookup(fr, k)
		var xs []value
		if cur != nil {
			xs = cur.([]value)
		}
		m.insert(fr, k, append(xs[:len(xs):len(xs)], a[2]))
		return nil
	})
	reg("(net/http.Header).Del", func(fr *frame, a []value) value {
		a[0].(*omap).delete(fr, canonKey(a[1]))
		return nil
	})

	// ---- http.Request
	reg("(*net/http.Request).ParseMultipartForm", func(fr *frame, a []value) value {
		fr.i.ensureForms(fr, a[0].(*value))
		return mkNativeErr(http.ErrNotMultipart)
	})
	reg("(*net/http.Request).ParseForm", func(fr *frame, a []value) value {
		fr.i.ensureForms(fr, a[0].(*value))
		return iface{}
	})
	reg("(*net/http.Request).Context", func(fr *frame, a []value) value { return iface{t: ctxT, v: &ctxVal{}} })
	reg("(*net/http.Request).WithContext", func(fr *frame, a []value) value { return a[0] })
	reg("(*net/http.Request).Cookie", func(fr *frame, a []value) value {
		t := types.NewPointer(fr.i.namedType("net/http", "Cookie"))
		return tuple{zero(t), mkNativeErr(http.ErrNoCookie)}
	})
	reg("(*net/http.Request).BasicAuth", func(fr *frame, a []value) value {
		p := a[0].(*value)
		hdr, _ := (*fr.i.fieldOf(p, "net/http", "Request", "Header")).(*omap)
		auth := valuesGet(fr, hdr, "Authorization")
		switch s := auth.(type) {
		case string:
			r := &http.Request{Header: http.Header{}}
			if s != "" {
				r.Header.Set("Authorization", s)
			}
			u, pw, ok := r.BasicAuth()
			return tuple{u, pw, ok}
		case *Term:
			// symbolic credentials are injected by harnesses as the structured value
			// "Basic " ++ zzb64(user ":" pass); see basicAuthTerm
			if u, pw, ok := splitBasicTerm(s); ok {
				// agentF1: the split at the first constant ':' is only right when the user part cannot contain one
				for _, part := range concatParts(u) {
					if !fr.i.m.separatorFree(part, ":") {
						panic(unmodelled{"BasicAuth: symbolic user id may contain ':' (declare it with zz.StringEx(..., \":\"))"})
					}
				}
				return tuple{strVal(u), strVal(pw), true}
			}
			panic(unmodelled{"BasicAuth on unstructured symbolic Authorization header"})
		}
		return tuple{"", "", false}
	})
	reg("net/http.Error", func(fr *frame, a []value) value {
		fr.i.m.ghost["log:http.Error"] = append(fr.i.m.ghost["log:http.Error"], tuple{a[1], a[2]})
		return nil
	})
	reg("net/http.NewRequest", func(fr *frame, a []value) value {
		panic(unmodelled{"http.NewRequest (harnesses build requests as composite literals)"})
	})

	// ---- url.Parse & URL methods
	reg("net/url.Parse", func(fr *frame, a []value) value { return fr.i.urlParse(fr, a[0], false) })
	reg("net/url.ParseRequestURI", func(fr *frame, a []value) value { return fr.i.urlParse(fr, a[0], true) })
	reg("(*net/url.URL).String", func(fr *frame, a []value) value { return fr.i.urlString(fr, a[0].(*value)) })
	reg("(*net/url.URL).Hostname", func(fr *frame, a []value) value { return fr.i.urlHostname(fr, a[0].(*value)) })
	reg("(*net/url.URL).Port", func(fr *frame, a []value) value {
		if u, ok := fr.i.nativeURL(a[0].(*value)); ok {
			return u.Port()
		}
		f := fr.i.urlFields(a[0].(*value))
		if f[1].IsConst() {
			return (&url.URL{Host: f[1].S}).Port()
		}
		if pt := fr.i.m.portOf(f[1]); pt != nil {
			return strVal(pt)
		}
		panic(unmodelled{"URL.Port symbolic"})
	})
	reg("(*net/url.URL).IsAbs", func(fr *frame, a []value) value {
		sc := *fr.i.fieldOf(a[0].(*value), "net/url", "URL", "Scheme")
		return symNot(symEquals(fr, types.Typ[types.String], sc, ""))
	})
	reg("(*net/url.URL).Query", func(fr *frame, a []value) value {
		p := a[0].(*value)
		rq := *fr.i.fieldOf(p, "net/url", "URL", "RawQuery")
		switch q := rq.(type) {
		case string:
			vs, _ := url.ParseQuery(q)
			return valuesFromNative(vs)
		case *Term:
			return fr.i.symParseQuery(fr, q)
		}
		panic("URL.Query")
	})
	reg("net/url.ParseQuery", func(fr *frame, a []value) value {
		switch q := a[0].(type) {
		case string:
			vs, err := url.ParseQuery(q)
			return tuple{valuesFromNative(vs), mkNativeErr(err)}
		case *Term:
			return tuple{fr.i.symParseQuery(fr, q), iface{}}
		}
		panic("ParseQuery")
	})
	regSym("net/url.QueryUnescape", func(fr *frame, a []value) value {
		s := strArg(a[0])
		// identity on strings free of '%' and '+'; otherwise an error/unknown decode
		clean := mkNot(mkOr(mkContains(s, mkStr("%")), mkContains(s, mkStr("+"))))
		if fr.i.m.decide(clean) {
			return tuple{strVal(s), iface{}}
		}
		if fr.i.m.decide(mkUF("u_unescape_ok", SBool, s)) {
			return tuple{mkUF("u_unescape", SStr, s), iface{}}
		}
		return tuple{"", mkSymErr("url.EscapeError", "invalid URL escape")}
	})
	regSym("net/url.QueryEscape", func(fr *frame, a []value) value { return strVal(queryEscapeTerm(fr, strArg(a[0]))) })

	// ---- net
	reg("net.ParseIP", func(fr *frame, a []value) value {
		switch s := a[0].(type) {
		case string:
			ip := net.ParseIP(s)
			if ip == nil {
				return []value(nil)
			}
			return native{ip}
		case *Term:
			return symIP{s}
		}
		panic("ParseIP")
	})
	reg("(net.IP).IsLoopback", func(fr *frame, a []value) value {
		switch ip := a[0].(type) {
		case native:
			return ip.v.(net.IP).IsLoopback()
		case []value:
			return false
		case symIP:
			return symIsLoopbackIP(fr, ip.s)
		}
		panic(fmt.Sprintf("IsLoopback(%T)", a[0]))
	})
	reg("(net.IP).String", func(fr *frame, a []value) value {
		if ip, ok := a[0].(native); ok {
			return ip.v.(net.IP).String()
		}
		panic(unmodelled{"IP.String symbolic"})
	})

	// ---- govalidator
	reg("github.com/asaskevich/govalidator.IsRequestURL", func(fr *frame, a []value) value {
		switch s := a[0].(type) {
		case string:
			u, err := url.ParseRequestURI(s)
			if err != nil {
				return false
			}
			return len(u.Scheme) != 0
		case *Term:
			return fr.i.symIsRequestURL(fr, s)
		}
		panic("IsRequestURL")
	})
}

type symIP struct{ s *Term }

func canonKey(k value) value {
	if s, ok := k.(string); ok {
		return http.CanonicalHeaderKey(s)
	}
	return k
}

// ensureForms mimics what ParseForm guarantees for harness-built requests: Form and
// PostForm are non-nil maps; Form contains PostForm's entries (harnesses set both).
func (i *interpreter) ensureForms(fr *frame, p *value) {
	pf := i.fieldOf(p, "net/http", "Request", "PostForm")
	f := i.fieldOf(p, "net/http", "Request", "Form")
	if m, _ := (*pf).(*omap); m == nil {
		*pf = &omap{keyType: types.Typ[types.String]}
	}
	if m, _ := (*f).(*omap); m == nil {
		nm := &omap{keyType: types.Typ[types.String]}
		// Form = PostForm + URL query
		for _, e := range (*pf).(*omap).entries {
			nm.entries = append(nm.entries, &omapEntry{e.key, e.val})
		}
		if up, _ := (*i.fieldOf(p, "net/http", "Request", "URL")).(*value); up != nil {
			if rq, ok := (*i.fieldOf(up, "net/url", "URL", "RawQuery")).(string); ok {
				vs, _ := url.ParseQuery(rq)
				for _, e := range valuesFromNative(vs).entries {
					cur, _ := nm.lookup(fr, e.key)
					var xs []value
					if cur != nil {
						xs = cur.([]value)
					}
					nm.insert(fr, e.key, append(xs[:len(xs):len(xs)], e.val.([]value)...))
				}
			} else {
				panic(unmodelled{"ParseForm with symbolic URL query (set Request.Form in the harness)"})
			}
		}
		*f = nm
	}
}

// queryEscapeTerm: url.QueryEscape as the identity on strings made of unreserved characters,
// an uninterpreted injective-by-congruence function otherwise.
func queryEscapeTerm(fr *frame, s *Term) *Term {
	if s.IsConst() {
		return mkStr(url.QueryEscape(s.S))
	}
	unres := mkInRe(s, `(re.* (re.union (re.range "a" "z") (re.range "A" "Z") (re.range "0" "9") (str.to_re "-") (str.to_re "_") (str.to_re ".") (str.to_re "~")))`)
	e := mkUF("u_qescape", SStr, s)
	fr.i.m.assume(mkImplies(unres, mkEq(e, s)))
	// escaped text never contains the separators
	fr.i.m.assume(mkNot(mkOr(mkContains(e, mkStr("&")), mkContains(e, mkStr("=")), mkContains(e, mkStr("#")), mkContains(e, mkStr("?")), mkContains(e, mkStr(" ")))))
	return e
}

// splitBasicTerm recognises "Basic " ++ u_b64std(user ++ ":" ++ pass) built by harnesses.
func splitBasicTerm(s *Term) (u, p *Term, ok bool) {
	parts := concatParts(s)
	if len(parts) != 2 || !parts[0].IsConst() || parts[0].S != "Basic " {
		return nil, nil, false
	}
	b := parts[1]
	if b.Op != "uf" || b.S != "u_b64std" || len(b.Args) != 1 {
		return nil, nil, false
	}
	inner := concatParts(b.Args[0])
	// user ":" pass with user colon-free (structural)
	for k, x := range inner {
		if x.IsConst() && strings.Contains(x.S, ":") {
			i := strings.Index(x.S, ":")
			left := append(append([]*Term(nil), inner[:k]...), mkStr(x.S[:i]))
			right := append([]*Term{mkStr(x.S[i+1:])}, inner[k+1:]...)
			return mkConcat(left...), mkConcat(right...), true
		}
	}
	return nil, nil, false
}
