package interp

// Intrinsics added for C03 / C16 / C17 (author agentD):
//   * (*regexp.Regexp).MatchString on a symbolic string: the compiled expression is
//     translated to an SMT-LIB regular expression (regexp/syntax -> re.*), exact for the
//     operators handled, "unmodelled" for everything else;
//   * collision freedom of the hash functions and injectivity of base64 *across* concrete
//     and symbolic applications (A-hash-inj): the engine computes hashes of concrete data
//     natively and represents hashes of symbolic data by an uninterpreted function; without
//     a link between the two a model may "find" a preimage of a concrete digest, which can
//     never be replayed. The link is an inverse function  inv(H(x)) = x  asserted for every
//     application, concrete ones included (only once a symbolic application exists).

import (
	"fmt"
	"regexp"
	"regexp/syntax"
	"strings"
)

const smtMaxChar = 0x2FFFF

func smtCharLit(r rune) string {
	if r >= 0x20 && r < 0x7f && r != '"' && r != '\\' {
		return `"` + string(r) + `"`
	}
	return fmt.Sprintf(`"\u{%x}"`, r)
}

func smtRange(lo, hi rune) string {
	if hi > smtMaxChar {
		hi = smtMaxChar
	}
	if lo > hi {
		return "re.none"
	}
	if lo == hi {
		return "(str.to_re " + smtCharLit(lo) + ")"
	}
	return "(re.range " + smtCharLit(lo) + " " + smtCharLit(hi) + ")"
}

func smtUnion(parts []string) string {
	switch len(parts) {
	case 0:
		return "re.none"
	case 1:
		return parts[0]
	}
	return "(re.union " + strings.Join(parts, " ") + ")"
}

func smtConcatRe(parts []string) string {
	switch len(parts) {
	case 0:
		return `(str.to_re "")`
	case 1:
		return parts[0]
	}
	return "(re.++ " + strings.Join(parts, " ") + ")"
}

// reBodyToSMT translates an anchor-free regexp/syntax tree.
func reBodyToSMT(re *syntax.Regexp) (string, bool) {
	switch re.Op {
	case syntax.OpNoMatch:
		return "re.none", true
	case syntax.OpEmptyMatch:
		return `(str.to_re "")`, true
	case syntax.OpLiteral:
		var parts []string
		for _, r := range re.Rune {
			if re.Flags&syntax.FoldCase != 0 && (r >= 'a' && r <= 'z' || r >= 'A' && r <= 'Z') {
				lo := r | 0x20
				parts = append(parts, smtUnion([]string{smtRange(lo, lo), smtRange(lo-0x20, lo-0x20)}))
			} else {
				parts = append(parts, smtRange(r, r))
			}
		}
		return smtConcatRe(parts), true
	case syntax.OpCharClass:
		var parts []string
		for k := 0; k+1 < len(re.Rune); k += 2 {
			if re.Rune[k] > smtMaxChar {
				continue
			}
			parts = append(parts, smtRange(re.Rune[k], re.Rune[k+1]))
		}
		return smtUnion(parts), true
	case syntax.OpAnyChar:
		return "re.allchar", true
	case syntax.OpAnyCharNotNL:
		return smtUnion([]string{smtRange(0, '\n'-1), smtRange('\n'+1, smtMaxChar)}), true
	case syntax.OpCapture:
		return reBodyToSMT(re.Sub[0])
	case syntax.OpStar, syntax.OpPlus, syntax.OpQuest:
		s, ok := reBodyToSMT(re.Sub[0])
		if !ok {
			return "", false
		}
		op := map[syntax.Op]string{syntax.OpStar: "re.*", syntax.OpPlus: "re.+", syntax.OpQuest: "re.opt"}[re.Op]
		return "(" + op + " " + s + ")", true
	case syntax.OpRepeat:
		s, ok := reBodyToSMT(re.Sub[0])
		if !ok {
			return "", false
		}
		if re.Max < 0 {
			return fmt.Sprintf("(re.++ ((_ re.^ %d) %s) (re.* %s))", re.Min, s, s), true
		}
		return fmt.Sprintf("((_ re.loop %d %d) %s)", re.Min, re.Max, s), true
	case syntax.OpConcat, syntax.OpAlternate:
		var parts []string
		for _, sub := range re.Sub {
			s, ok := reBodyToSMT(sub)
			if !ok {
				return "", false
			}
			parts = append(parts, s)
		}
		if re.Op == syntax.OpConcat {
			return smtConcatRe(parts), true
		}
		return smtUnion(parts), true
	}
	return "", false // anchors in inner positions, word boundaries, ...
}

// regexpSearchToSMT gives the SMT regular expression of the strings in which `expr` has a match
// (regexp.MatchString semantics: unanchored search; ^ and $ honoured at the two ends).
// A result starting with "!" denotes the complement of the membership in the rest.
func regexpSearchToSMT(expr string) (string, bool) {
	re, err := syntax.Parse(expr, syntax.Perl)
	if err != nil {
		return "", false
	}
	re = re.Simplify()
	for re.Op == syntax.OpCapture {
		re = re.Sub[0]
	}
	subs := []*syntax.Regexp{re}
	if re.Op == syntax.OpConcat {
		subs = re.Sub
	}
	start, end := false, false
	if len(subs) > 0 && subs[0].Op == syntax.OpBeginText {
		start, subs = true, subs[1:]
	}
	if len(subs) > 0 && subs[len(subs)-1].Op == syntax.OpEndText {
		end, subs = true, subs[:len(subs)-1]
	}
	if !start && !end && len(subs) == 1 && subs[0].Op == syntax.OpCharClass {
		// "contains a character of class C"  ==  not (s in complement(C)*): far cheaper for the solver
		var comp []string
		next := rune(0)
		rs := subs[0].Rune
		for k := 0; k+1 < len(rs); k += 2 {
			if rs[k] > next {
				comp = append(comp, smtRange(next, rs[k]-1))
			}
			next = rs[k+1] + 1
			if next > smtMaxChar {
				break
			}
		}
		if next <= smtMaxChar {
			comp = append(comp, smtRange(next, smtMaxChar))
		}
		return "!(re.* " + smtUnion(comp) + ")", true
	}
	var parts []string
	if !start {
		parts = append(parts, "re.all")
	}
	for _, s := range subs {
		t, ok := reBodyToSMT(s)
		if !ok {
			return "", false
		}
		parts = append(parts, t)
	}
	if !end {
		parts = append(parts, "re.all")
	}
	return smtConcatRe(parts), true
}

// ---- hash / base64 injectivity across concrete and symbolic applications

type agentDPair struct{ in, out string }

// invLink maintains  inv(f(x)) = x  for one function symbol.
func (m *Machine) invLinkSymbolic(fname string, x, r *Term) {
	inv := fname + "_zinv"
	key := "agentD:inj:" + fname
	if len(m.ghost[key+":sym"]) == 0 {
		m.ghost[key+":sym"] = []value{true}
		for _, p := range m.ghost[key] {
			pp := p.(agentDPair)
			m.assume(mkEq(mkUF(inv, SStr, mkStr(pp.out)), mkStr(pp.in)))
		}
		m.note("A-hash-inj: hash functions are collision free and base64 is injective, also between natively computed and symbolic applications (inverse-function axiom)")
	}
	m.assume(mkEq(mkUF(inv, SStr, r), x))
}

func (m *Machine) invLinkConcrete(fname string, in, out string) {
	key := "agentD:inj:" + fname
	for _, p := range m.ghost[key] {
		if p.(agentDPair).out == out {
			return
		}
	}
	m.ghost[key] = append(m.ghost[key], agentDPair{in, out})
	if len(m.ghost[key+":sym"]) != 0 {
		m.assume(mkEq(mkUF(fname+"_zinv", SStr, mkStr(out)), mkStr(in)))
	}
}

func init() {
	regSym("(*regexp.Regexp).MatchString", func(fr *frame, a []value) value {
		re, ok := a[0].(native).v.(*regexp.Regexp)
		if !ok {
			panic(unmodelled{"MatchString on a non-native regexp"})
		}
		smt, ok := regexpSearchToSMT(re.String())
		if !ok {
			panic(unmodelled{"regexp not translatable to SMT: " + re.String()})
		}
		fr.i.m.note("regexp " + re.String() + " on symbolic input translated to SMT-LIB (characters above U+2FFFF not representable; inputs are ASCII)")
		if strings.HasPrefix(smt, "!") {
			return boolVal(mkNot(mkInRe(strArg(a[1]), smt[1:])))
		}
		return boolVal(mkInRe(strArg(a[1]), smt))
	})

	hashSumHookConcrete = func(m *Machine, hname string, data string, sum []byte) {
		m.invLinkConcrete(smtIdent("u_hash_", hname), data, string(sum))
	}
	hashSumHookSymbolic = func(m *Machine, hname string, data, r *Term) {
		m.invLinkSymbolic(smtIdent("u_hash_", hname), data, r)
	}
	b64HookConcrete = func(m *Machine, fname string, in []byte, out string) {
		m.invLinkConcrete(fname, string(in), out)
	}
	b64HookSymbolic = func(m *Machine, fname string, x, r *Term) {
		m.invLinkSymbolic(fname, x, r)
	}
}
