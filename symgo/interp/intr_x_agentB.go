package interp

// Intrinsics added by author agentB for the C07 / C02 / C05 harnesses.

import (
	"encoding/json"
)

func init() {
	// (encoding/json.Number).Int64 == strconv.ParseInt(string(n), 10, 64).
	// A number that was rendered from an Int term by strconv.FormatInt / Itoa is recognised
	// structurally (decimal rendering is injective), everything else goes through the general
	// symbolic Atoi model.
	reg("(encoding/json.Number).Int64", func(fr *frame, a []value) value {
		s := strArg(a[0])
		if s.IsConst() {
			v, err := json.Number(s.S).Int64()
			return tuple{v, mkNativeErr(err)}
		}
		if s.Op == "str.from_int" && len(s.Args) == 1 {
			// symItoa only emits str.from_int for a non-negative argument
			return tuple{int64Val(s.Args[0]), iface{}}
		}
		if s.Op == "str.++" && len(s.Args) == 2 && s.Args[0].IsConst() && s.Args[0].S == "-" &&
			s.Args[1].Op == "str.from_int" && len(s.Args[1].Args) == 1 {
			return tuple{int64Val(mkNeg(s.Args[1].Args[0])), iface{}}
		}
		return symAtoi(fr, s, true)
	})
	// package-level variable of an uninterpreted package read by Config.GetUserCodeSymbols
	externalGlobals["github.com/ory/x/randx.AlphaUpper"] = func(i *interpreter) value {
		var out []value
		for _, r := range "ABCDEFGHIJKLMNOPQRSTUVWXYZ" {
			out = append(out, int32(r))
		}
		return out
	}
	// go-jose jwt.NumericDate (seconds since the epoch, int64) and jwt.Audience ([]string):
	// exact models of the two accessor methods that rfc7523.validateTokenClaims uses.
	reg("(*github.com/go-jose/go-jose/v3/jwt.NumericDate).Time", func(fr *frame, a []value) value {
		p, _ := a[0].(*value)
		if p == nil {
			return timeVal{mkBig(zeroTimeBig)}
		}
		return timeVal{mkMul(toTerm(*p), mkInt(1e9))}
	})
	reg("(github.com/go-jose/go-jose/v3/jwt.Audience).Contains", func(fr *frame, a []value) value {
		xs, _ := a[0].([]value)
		var acc *Term = mkBool(false)
		for _, x := range xs {
			acc = mkOr(acc, mkEq(strArg(x), strArg(a[1])))
		}
		return boolVal(acc)
	})
	reg("(encoding/json.Number).String", func(fr *frame, a []value) value { return a[0] })
}

// noUpperCaseTerm reports whether t is syntactically free of upper-case ASCII letters: a constant
// without them, an input variable whose alphabet (zz.StringEx) excludes A-Z, or a concatenation of such.
func noUpperCaseTerm(m *Machine, t *Term) bool {
	switch {
	case t.IsConst():
		for i := 0; i < len(t.S); i++ {
			if t.S[i] >= 'A' && t.S[i] <= 'Z' || t.S[i] >= 0x80 {
				return false
			}
		}
		return true
	case t.Op == "var":
		ex, ok := m.noChars[t.S]
		if !ok {
			return false
		}
		for c := byte('A'); c <= 'Z'; c++ {
			if !containsByte(ex, c) {
				return false
			}
		}
		return true
	case t.Op == "str.++":
		for _, a := range t.Args {
			if !noUpperCaseTerm(m, a) {
				return false
			}
		}
		return len(t.Args) > 0
	}
	return false
}

func containsByte(s string, c byte) bool {
	for i := 0; i < len(s); i++ {
		if s[i] == c {
			return true
		}
	}
	return false
}
