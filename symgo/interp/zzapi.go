package interp

// Interception of the harness API (package github.com/ory/fosite/zz_verif_h/zz).

import (
	"fmt"
	"os"
	"go/types"
	"strings"
)

const zzPath = "github.com/ory/fosite/zz_verif_h/zz"

var zzAPI = map[string]intrinsic{}

func cstr(v value, what string) string {
	s, ok := v.(string)
	if !ok {
		panic(fmt.Sprintf("zz API: %s must be a constant string", what))
	}
	return s
}

// alphabet regexes for symbolic strings
const (
	rePrintable = `(re.range " " "~")`
)

func charClassRe(exclude string) string {
	// printable ASCII minus the excluded characters
	if exclude == "" {
		return rePrintable
	}
	var parts []string
	lo := byte(' ')
	for c := byte(' '); c <= '~'; c++ {
		if strings.IndexByte(exclude, c) >= 0 {
			if lo < c {
				parts = append(parts, fmt.Sprintf("(re.range %s %s)", smtStringLit(string([]byte{lo})), smtStringLit(string([]byte{c-1}))))
			}
			lo = c + 1
		}
	}
	if lo <= '~' {
		parts = append(parts, fmt.Sprintf("(re.range %s %s)", smtStringLit(string([]byte{lo})), smtStringLit("~")))
	}
	if len(parts) == 1 {
		return parts[0]
	}
	return "(re.union " + strings.Join(parts, " ") + ")"
}

func (m *Machine) newString(name string, maxLen int64, exclude string) value {
	if m.concrete {
		panic(unmodelled{"symbolic input in concrete mode"})
	}
	t := m.newInput(name, "string", SStr)
	m.assume(mkLe(mkLen(t), mkInt(maxLen)))
	m.assume(mkInRe(t, "(re.* "+charClassRe(exclude)+")"))
	if m.noChars == nil {
		m.noChars = map[string]string{}
	}
	m.noChars[t.S] = exclude
	m.note(fmt.Sprintf("input %s: string over printable ASCII minus %q, len <= %d", name, exclude, maxLen))
	return t
}

func (m *Machine) note(s string) {
	for _, a := range m.res.Assumptions {
		if a == s {
			return
		}
	}
	m.res.Assumptions = append(m.res.Assumptions, s)
}

func init() {
	zzAPI["Bool"] = func(fr *frame, a []value) value {
		m := fr.i.m
		t := m.newInput(cstr(a[0], "name"), "bool", SBool)
		return t
	}
	zzAPI["Int"] = func(fr *frame, a []value) value {
		m := fr.i.m
		t := m.newInput(cstr(a[0], "name"), "int", SInt)
		lo, hi := asInt64(a[1]), asInt64(a[2])
		m.assume(mkAnd(mkLe(mkInt(lo), t), mkLe(t, mkInt(hi))))
		return t
	}
	zzAPI["String"] = func(fr *frame, a []value) value {
		return fr.i.m.newString(cstr(a[0], "name"), asInt64(a[1]), "")
	}
	zzAPI["StringEx"] = func(fr *frame, a []value) value {
		return fr.i.m.newString(cstr(a[0], "name"), asInt64(a[1]), cstr(a[2], "exclude"))
	}
	// Choice(name, n) returns a concrete value in [0,n), forking the path n ways.
	zzAPI["Choice"] = func(fr *frame, a []value) value {
		m := fr.i.m
		n := asInt64(a[1])
		t := m.newInput(cstr(a[0], "name"), "choice", SInt)
		var conds []*Term
		for k := int64(0); k < n; k++ {
			conds = append(conds, mkEq(t, mkInt(k)))
		}
		m.assume(mkAnd(mkLe(mkInt(0), t), mkLt(t, mkInt(n))))
		// agentF1: every value of a fresh choice variable is feasible; no solver queries needed
		m.allFeasible = true
		defer func() { m.allFeasible = false }()
		return int(m.decideN(conds))
	}
	zzAPI["Assume"] = func(fr *frame, a []value) value {
		m := fr.i.m
		switch c := a[0].(type) {
		case bool:
			if !c {
				panic(pathEnd{"assume-false"})
			}
		case *Term:
			// keep the path only if feasible
			switch m.solver.CheckWith(c) {
			case Unsat:
				panic(pathEnd{"assume-false"})
			case Unknown:
				m.hasUnknown = true
				m.ex.noteUnknown("assume")
			}
			m.assume(c)
		}
		return nil
	}
	zzAPI["Assert"] = func(fr *frame, a []value) value {
		fr.i.m.doAssert(fr, a[0], cstr(a[1], "label"))
		return nil
	}
	zzAPI["Cover"] = func(fr *frame, a []value) value {
		m := fr.i.m
		label := cstr(a[0], "label")
		switch c := a[1].(type) {
		case bool:
			if c {
				m.cover(label)
			}
		case *Term:
			if m.decide(c) {
				m.cover(label)
			}
		}
		return nil
	}
	zzAPI["Observe"] = func(fr *frame, a []value) value {
		m := fr.i.m
		it := a[1].(iface)
		if m.ex.cfg.Trace {
			fmt.Fprintf(os.Stderr, "OBS %s = %s\n", cstr(a[0], "label"), toString(it.v))
		}
		m.obs = append(m.obs, Observation{Label: cstr(a[0], "label"), Val: it.v})
		return nil
	}
	zzAPI["Advance"] = func(fr *frame, a []value) value {
		m := fr.i.m
		d := toTerm(a[0])
		m.ensureClock()
		m.clock = mkAdd(m.clock, d)
		return nil
	}
	zzAPI["Thorough"] = func(fr *frame, a []value) value { return fr.i.m.ex.cfg.Thorough }
	zzAPI["Symbolic"] = func(fr *frame, a []value) value { return true }
	zzAPI["Note"] = func(fr *frame, a []value) value {
		fr.i.m.note(cstr(a[0], "note"))
		return nil
	}
	// IsSym(v) reports whether v is symbolic (always false natively): lets a harness pick cheaper oracles.
	zzAPI["SetOption"] = func(fr *frame, a []value) value {
		m := fr.i.m
		if m.opts == nil {
			m.opts = map[string]int64{}
		}
		m.opts[cstr(a[0], "option")] = asInt64(a[1])
		return nil
	}
	zzAPI["Log"] = func(fr *frame, a []value) value {
		m := fr.i.m
		name := cstr(a[0], "log name")
		var out []value
		for _, v := range m.ghost["log:"+name] {
			out = append(out, v)
		}
		return out
	}
	zzAPI["StrEq"] = func(fr *frame, a []value) value { return symEquals(fr, types.Typ[types.String], a[0], a[1]) }
	zzAPI["Ite"] = func(fr *frame, a []value) value {
		switch c := a[0].(type) {
		case bool:
			if c {
				return a[1]
			}
			return a[2]
		case *Term:
			return boolVal(mkIte(c, toTerm(a[1]), toTerm(a[2])))
		}
		panic("zz.Ite")
	}
	// And/Or/Not/Implies build Boolean terms without forking.
	zzAPI["And"] = func(fr *frame, a []value) value { return boolVal(mkAnd(toTerm(a[0]), toTerm(a[1]))) }
	zzAPI["Or"] = func(fr *frame, a []value) value { return boolVal(mkOr(toTerm(a[0]), toTerm(a[1]))) }
	zzAPI["Not"] = func(fr *frame, a []value) value { return boolVal(mkNot(toTerm(a[0]))) }
	zzAPI["Implies"] = func(fr *frame, a []value) value { return boolVal(mkImplies(toTerm(a[0]), toTerm(a[1]))) }
}

func (m *Machine) cover(label string) {
	for _, c := range m.res.Covers {
		if c == label {
			return
		}
	}
	m.res.Covers = append(m.res.Covers, label)
}

func (m *Machine) doAssert(fr *frame, c value, label string) {
	pos := ""
	if fr.caller != nil {
		pos = fr.caller.fn.Name()
	}
	switch c := c.(type) {
	case bool:
		if c {
			m.res.Asserts = append(m.res.Asserts, AssertResult{Label: label, Status: "concrete-true", Pos: pos})
			return
		}
		// concrete failure under the current path condition
		st := "unknown"
		var model map[string]any
		if m.checkRefined() == Sat { // model validated against the native evaluators of the UFs (refine_agentC.go)
			if mm, _, ok := m.modelOfInputs(); ok {
				st, model = "violated", mm
			}
		}
		m.flushRefinements()
		m.res.Asserts = append(m.res.Asserts, AssertResult{Label: label, Status: st, Model: model, Pos: pos})
		panic(pathEnd{"assert-stop"})
	case *Term:
		neg := mkNot(c)
		m.solver.declare(neg)
		m.solver.Push()
		m.solver.send("(assert " + neg.String() + ")")
		var model map[string]any
		// sat models are validated against the native evaluators of the UFs (refine_agentC.go)
		r := m.withRefinedModel(func() { model, _, _ = m.modelOfInputs() }, neg)
		m.solver.Pop()
		m.flushRefinements()
		if r == Unsat && !m.crossUnsat(neg) {
			m.ex.noteUnknown("solver-disagreement(assert:" + label + ")")
			r = Unknown
		}
		switch r {
		case Unsat:
			m.res.Asserts = append(m.res.Asserts, AssertResult{Label: label, Status: "discharged", Pos: pos})
			return
		case Sat:
			st := "violated"
			if model == nil {
				st = "unknown"
			}
			m.res.Asserts = append(m.res.Asserts, AssertResult{Label: label, Status: st, Model: model, Pos: pos})
		default:
			m.res.Asserts = append(m.res.Asserts, AssertResult{Label: label, Status: "unknown", Pos: pos})
		}
		// continue on the side where the assertion holds, if any
		if m.solver.CheckWith(c) != Sat {
			panic(pathEnd{"assert-stop"})
		}
		m.assume(c)
	default:
		panic(fmt.Sprintf("zz.Assert: %T", c))
	}
}

// evalObservations evaluates recorded observations under the current model.
func (m *Machine) evalObservations() map[string]any {
	out := map[string]any{}
	cnt := map[string]int{}
	for _, o := range m.obs {
		key := fmt.Sprintf("%s#%d", o.Label, cnt[o.Label])
		cnt[o.Label]++
		switch v := o.Val.(type) {
		case *Term:
			vals, err := m.solver.GetValues([]*Term{v})
			if err != nil {
				continue
			}
			r := vals[v.String()]
			if r == nil {
				continue
			}
			switch r.Sort {
			case SBool:
				out[key] = r.B
			case SInt:
				out[key] = r.I.Int64()
			case SStr:
				out[key] = r.S
			}
		case bool, string:
			out[key] = v
		case int, int8, int16, int32, int64:
			out[key] = asInt64(v)
		case uint, uint8, uint16, uint32, uint64:
			out[key] = int64(asUint64(v))
		case []value:
			allStr := true
			var ss []string
			for _, e := range v {
				s, ok := e.(string)
				if !ok {
					allStr = false
					break
				}
				ss = append(ss, s)
			}
			if allStr {
				out[key] = ss
			}
		}
	}
	return out
}
