package interp

// Additions by agentC (C11/C12/C13).
//
// Init order note: files are initialised in file-name order, so this file runs after
// intr_net.go / intr_url.go (whose registrations it may refine) but BEFORE intrinsics.go
// and zzapi.go (whose registrations it must not try to override).

import (
	"net/url"
	"sort"
	"strings"
)

// unreservedOnly reports whether t is an input variable whose alphabet is contained in
// [A-Za-z0-9-_.~], i.e. url.QueryEscape is the identity on it.
func (m *Machine) unreservedOnly(t *Term) bool {
	if t.Op != "var" {
		return false
	}
	ex, ok := m.noChars[t.S]
	if !ok {
		return false
	}
	for c := byte(' '); c <= '~'; c++ {
		unres := c >= 'a' && c <= 'z' || c >= 'A' && c <= 'Z' || c >= '0' && c <= '9' || c == '-' || c == '_' || c == '.' || c == '~'
		if !unres && strings.IndexByte(ex, c) < 0 {
			return false
		}
	}
	return true
}

// queryEscapeTermC is queryEscapeTerm with exact short cuts: identity on concatenations of
// constants-without-reserved-characters and unreserved-only variables.
func queryEscapeTermC(fr *frame, s *Term) *Term {
	if s.IsConst() {
		return mkStr(url.QueryEscape(s.S))
	}
	m := fr.i.m
	var out []*Term
	for _, p := range concatParts(s) {
		switch {
		case p.IsConst():
			out = append(out, mkStr(url.QueryEscape(p.S))) // escaping is byte-wise, so it distributes over concatenation
		case m.unreservedOnly(p):
			out = append(out, p)
		default:
			out = append(out, queryEscapeTerm(fr, p))
		}
	}
	return mkConcat(out...)
}

func init() {
	// ---- zz additions
	zzAPI["IteStr"] = func(fr *frame, a []value) value {
		switch c := a[0].(type) {
		case bool:
			if c {
				return a[1]
			}
			return a[2]
		case *Term:
			return strVal(mkIte(c, strArg(a[1]), strArg(a[2])))
		}
		panic("zz.IteStr")
	}
	// FormPost(body) (action string, params url.Values, ok bool): symbolically the arguments of the
	// last (*template.Template).Execute call (the body is not rendered by the engine).
	zzAPI["FormPost"] = func(fr *frame, a []value) value {
		m := fr.i.m
		log := m.ghost["log:template.Execute"]
		if len(log) == 0 {
			return tuple{"", (*omap)(nil), false}
		}
		ent := log[len(log)-1].(tuple)
		data := ent[1]
		if it, ok := data.(iface); ok {
			data = it.v
		}
		st, ok := data.(structure)
		if !ok || len(st) != 2 {
			panic(unmodelled{"zz.FormPost: unexpected template data"})
		}
		params, _ := st[1].(*omap)
		m.note("A-html: html/template renders the form-post target and parameters it is given (the harness template is decoded exactly on native replay)")
		return tuple{st[0], params, true}
	}

	// ---- url.Values.Encode / url.QueryEscape with exact identity on unreserved material
	reg("(net/url.Values).Encode", func(fr *frame, a []value) value {
		m := a[0].(*omap)
		if vs, ok := valuesToNative(m); ok {
			return vs.Encode()
		}
		type kv struct {
			k string
			v []value
		}
		var kvs []kv
		if m != nil {
			for _, e := range m.entries {
				k, ok := e.key.(string)
				if !ok {
					panic(unmodelled{"url.Values.Encode with symbolic key"})
				}
				kvs = append(kvs, kv{k, e.val.([]value)})
			}
		}
		sort.Slice(kvs, func(i, j int) bool { return kvs[i].k < kvs[j].k })
		var parts []*Term
		for _, e := range kvs {
			for _, v := range e.v {
				if len(parts) > 0 {
					parts = append(parts, mkStr("&"))
				}
				parts = append(parts, mkStr(url.QueryEscape(e.k)+"="), queryEscapeTermC(fr, strArg(v)))
			}
		}
		return strVal(mkConcat(parts...))
	})
	regSym("net/url.QueryEscape", func(fr *frame, a []value) value { return strVal(queryEscapeTermC(fr, strArg(a[0]))) })

	zzAPI["SpyHTTPClient"] = func(fr *frame, a []value) value {
		var cell value = native{retryClientTag{}}
		return &cell
	}
	zzAPI["FetchCount"] = func(fr *frame, a []value) value { return len(fr.i.m.ghost["log:http.Get"]) }

	// ---- environment: the HTTP client used to fetch an OpenID Connect request_uri. There is no network in
	// the model (nor in the sandbox of the native replays): every fetch fails.
	reg("github.com/hashicorp/go-retryablehttp.NewClient", func(fr *frame, a []value) value {
		var cell value = native{retryClientTag{}}
		return &cell
	})
	reg("(*github.com/hashicorp/go-retryablehttp.Client).Get", func(fr *frame, a []value) value {
		m := fr.i.m
		m.ghost["log:http.Get"] = append(m.ghost["log:http.Get"], a[1])
		m.note("environment: fetching a request_uri over HTTP fails (no network); the attempt is logged")
		return tuple{(*value)(nil), mkSymErr("retryablehttp", mkConcat(mkStr("Get "), mkStr("\""), strArg(a[1]), mkStr("\": fetch failed")))}
	})
}

type retryClientTag struct{}
