package interp

import (
	"sort"
	"strings"

	"go/types"

	"golang.org/x/tools/go/ssa"
)

// Inventory lists the external callees of all interpreted (non-harness) functions
// and whether the engine has a treatment for each.
func (p *Program) Inventory() []string {
	counts := map[string]int{}
	var fns []*ssa.Function
	var add func(fn *ssa.Function)
	add = func(fn *ssa.Function) {
		if fn == nil {
			return
		}
		fns = append(fns, fn)
		for _, a := range fn.AnonFuncs {
			add(a)
		}
	}
	for _, sp := range p.Pkgs {
		for _, mem := range sp.Members {
			switch m := mem.(type) {
			case *ssa.Function:
				add(m)
			case *ssa.Type:
				for _, t := range []types.Type{m.Type(), types.NewPointer(m.Type())} {
					ms := p.Prog.MethodSets.MethodSet(t)
					for k := 0; k < ms.Len(); k++ {
						if ms.At(k).Obj().Pkg() == sp.Pkg {
							add(p.Prog.MethodValue(ms.At(k)))
						}
					}
				}
			}
		}
	}
	for _, fn := range fns {
		if fn.Blocks == nil || !p.isInterpreted(fn) {
			continue
		}
		path := fnPkgPath(fn)
		if !isInterpretedPath(path) || strings.Contains(path, "zz_verif_h") || strings.Contains(path, "/internal") || strings.Contains(path, "/integration") {
			continue
		}
		for _, b := range fn.Blocks {
			for _, ins := range b.Instrs {
				var cc *ssa.CallCommon
				switch c := ins.(type) {
				case *ssa.Call:
					cc = &c.Call
				case *ssa.Defer:
					cc = &c.Call
				case *ssa.Go:
					cc = &c.Call
				}
				if cc == nil {
					continue
				}
				if callee := cc.StaticCallee(); callee != nil && !p.isInterpreted(callee) {
					counts[callee.String()]++
				}
			}
			for _, ins := range b.Instrs {
				// function values taken (e.g. sha512.New512_256 passed around)
				for _, op := range ins.Operands(nil) {
					if f, ok := (*op).(*ssa.Function); ok && !p.isInterpreted(f) {
						if _, isCall := ins.(*ssa.Call); !isCall {
							counts[f.String()+" (value)"]++
						}
					}
				}
			}
		}
	}
	var out []string
	for n, c := range counts {
		base := strings.TrimSuffix(n, " (value)")
		st := "MISSING"
		if intrinsics[base] != nil {
			st = "intrinsic"
		} else if symIntrinsics[base] != nil && nativeFuncs[base].IsValid() {
			st = "sym+native"
		} else if symIntrinsics[base] != nil {
			st = "sym-only"
		} else if nativeFuncs[base].IsValid() {
			st = "native-only"
		}
		out = append(out, st+"\t"+n+"\t"+itoa(c))
	}
	sort.Strings(out)
	return out
}

func itoa(i int) string {
	if i == 0 {
		return "0"
	}
	var b []byte
	for i > 0 {
		b = append([]byte{byte('0' + i%10)}, b...)
		i /= 10
	}
	return string(b)
}
