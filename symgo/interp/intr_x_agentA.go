package interp

// Intrinsics added by author agentA for the C01 / C08 / C09 harnesses.

// bufObj models *bytes.Buffer for the few uses in fosite (handler/openid
// IDTokenHandleHelper.ComputeHash): a byte string that is only appended to and
// read as a whole.
type bufObj struct {
	data value // []value of bytes, or absBytes
}

func bufOf(v value) *bufObj {
	switch x := v.(type) {
	case native:
		if b, ok := x.v.(*bufObj); ok {
			return b
		}
	case iface:
		return bufOf(x.v)
	}
	panic(unmodelled{"bytes.Buffer receiver that was not made by bytes.NewBuffer/NewBufferString"})
}

func init() {
	reg("bytes.NewBufferString", func(fr *frame, a []value) value {
		return native{&bufObj{data: termBytes(strArg(a[0]))}}
	})
	reg("bytes.NewBuffer", func(fr *frame, a []value) value {
		return native{&bufObj{data: a[0]}}
	})
	reg("(*bytes.Buffer).Bytes", func(fr *frame, a []value) value {
		return bufOf(a[0]).data
	})
	reg("(*bytes.Buffer).String", func(fr *frame, a []value) value {
		return strVal(bytesTerm(bufOf(a[0]).data))
	})
	reg("(*bytes.Buffer).Len", func(fr *frame, a []value) value {
		b := bufOf(a[0])
		if xs, ok := b.data.([]value); ok {
			return len(xs)
		}
		return intVal(mkLen(bytesTerm(b.data)))
	})
	reg("(*bytes.Buffer).WriteString", func(fr *frame, a []value) value {
		b := bufOf(a[0])
		s := strArg(a[1])
		b.data = termBytes(mkConcat(bytesTerm(b.data), s))
		return tuple{intVal(mkLen(s)), iface{}}
	})
	reg("(*bytes.Buffer).Write", func(fr *frame, a []value) value {
		b := bufOf(a[0])
		s := bytesTerm(a[1])
		b.data = termBytes(mkConcat(bytesTerm(b.data), s))
		return tuple{intVal(mkLen(s)), iface{}}
	})
}
