package interp

// Machine: state of one symbolic path (decisions, path condition, inputs,
// assertions). Paths are explored by re-execution from the start with a
// decision prefix.

import (
	"os"
	"fmt"
	"math/big"
	"sort"
	"strings"
)

// unmodelled is the panic value that ends a path which reached something the
// engine cannot encode. Such paths are counted, never reported as pass/violation.
type unmodelled struct{ what string }

func (u unmodelled) String() string { return "unmodelled: " + u.what }

// pathEnd is the panic value that ends a path normally-early.
type pathEnd struct{ reason string }

type InputVar struct {
	Name string // replay key, e.g. "s.redirect#0"
	Kind string // "bool","int","string","choice","advance"
	Term *Term
}

type AssertResult struct {
	Label  string
	Status string // "discharged","concrete-true","violated","unknown"
	Model  map[string]any
	Pos    string
}

type Observation struct {
	Label string
	Val   value
}

type PathResult struct {
	Trace       []int
	Status      string // "ok","unmodelled","assume-infeasible","panic","budget"
	Detail      string
	Asserts     []AssertResult
	Covers      []string
	CoverModel  map[string]any // model at path end (when requested)
	Obs         map[string]any // observations evaluated under CoverModel
	Overflow    string         // "", "checked", "possible", "unknown"
	Decisions   int
	Steps       int64
	Funcs       map[string]bool
	Assumptions []string
	Samples     string
}

type Machine struct {
	ex     *Explorer
	solver *Solver
	prefix []int
	trace  []int
	pc     []*Term
	names  map[string]int
	inputs []InputVar
	obs    []Observation
	oblig  []*Term
	res    *PathResult
	steps  int64
	fresh  int

	clock    *Term // current symbolic clock (ns since epoch)
	clockN   int
	concrete bool // concrete mode (selftest): no symbolic inputs allowed

	ghost map[string][]value // named call logs
	locks *lockState
	uf    map[string]bool
	hasUnknown bool
	noChars    map[string]string // input var -> characters excluded from its alphabet
	opts       map[string]int64
	randCtr    uint64
	urls       map[string]*urlDecl
	urlOrigin  map[*value]*urlOrigin
	known      map[string]bool // agentF1: renderings of the asserted path-condition conjuncts
	allFeasible bool           // agentF1: set by zz.Choice around decideN (fresh variable: all alternatives feasible)
	c19s       *c19State
	syncMaps   map[*value]*omap
	xsolver    *Solver // second solver (thorough tier): cross-checks every unsat verdict
}

// crossUnsat asks the second solver whether pc ∧ extra is really unsatisfiable.
// It returns false only when the second solver finds it satisfiable (a disagreement).
func (m *Machine) crossUnsat(extra *Term) bool {
	if m.xsolver == nil || m.xsolver.dead {
		return true
	}
	x := m.xsolver
	x.Reset()
	for _, p := range m.pc {
		x.Assert(p)
	}
	x.Assert(extra)
	// case conversion is an uninterpreted symbol for this solver: give it the axioms
	apps := map[string]*Term{}
	var walk func(t *Term)
	walk = func(t *Term) {
		if t.Op == "uf" && len(t.Args) == 1 && (t.S == "u_lower" || t.S == "u_upper") {
			apps[t.String()] = t
		}
		for _, a := range t.Args {
			walk(a)
		}
	}
	for _, p := range m.pc {
		walk(p)
	}
	walk(extra)
	for _, u := range apps {
		s := u.Args[0]
		x.Assert(mkEq(mkLen(u), mkLen(s)))
		x.Assert(mkEq(mkUF(u.S, SStr, u), u))
		cls := `(re.++ re.all (re.range "A" "Z") re.all)`
		if u.S == "u_upper" {
			cls = `(re.++ re.all (re.range "a" "z") re.all)`
		}
		x.Assert(mkImplies(mkNot(mkInRe(s, cls)), mkEq(u, s)))
	}
	r := x.Check()
	m.ex.noteCross(r)
	return r != Sat
}

func (m *Machine) freshName(prefix string) string {
	m.fresh++
	return fmt.Sprintf("%s_%d", prefix, m.fresh)
}

func (m *Machine) inputName(name string) string {
	k := m.names[name]
	m.names[name] = k + 1
	return fmt.Sprintf("%s#%d", name, k)
}

func smtIdent(prefix, name string) string {
	var b strings.Builder
	b.WriteString(prefix)
	for i := 0; i < len(name); i++ {
		c := name[i]
		if c >= 'a' && c <= 'z' || c >= 'A' && c <= 'Z' || c >= '0' && c <= '9' || c == '_' {
			b.WriteByte(c)
		} else {
			fmt.Fprintf(&b, "_%02x", c)
		}
	}
	return b.String()
}

// assume adds t to the path condition (no feasibility check).
func (m *Machine) assume(t *Term) {
	if t.IsConst() {
		if !t.B {
			panic(pathEnd{"assume-false"})
		}
		return
	}
	m.pc = append(m.pc, t)
	m.solver.Assert(t)
	if m.known == nil {
		m.known = map[string]bool{}
	}
	m.known[t.String()] = true
}

// decide resolves a symbolic condition into a concrete branch, forking the
// exploration when both sides are feasible.
func (m *Machine) decide(c *Term) bool {
	if c.IsConst() {
		return c.B
	}
	return m.decideN([]*Term{mkNot(c), c}) == 1
}

// decideN picks one of the mutually exclusive, jointly exhaustive conditions.
func (m *Machine) decideN(conds []*Term) int {
	k := len(m.trace)
	if m.ex != nil && k >= m.ex.cfg.MaxDecisions {
		panic(pathEnd{"budget-decisions"})
	}
	if k < len(m.prefix) {
		ch := m.prefix[k]
		if ch >= len(conds) {
			panic(fmt.Sprintf("symgo: nondeterministic re-execution (choice %d of %d at decision %d)", ch, len(conds), k))
		}
		m.trace = append(m.trace, ch)
		m.assume(conds[ch])
		return ch
	}
	// agentF1: an alternative that is literally part of the path condition is the only feasible one
	// (alternatives are mutually exclusive): no solver query needed
	for i, c := range conds {
		if !c.IsConst() && m.known[c.String()] {
			m.trace = append(m.trace, i)
			return i
		}
	}
	// new decision: find feasible alternatives
	var feas []int
	for i, c := range conds {
		if m.allFeasible {
			feas = append(feas, i)
			continue
		}
		if c.IsConst() {
			if c.B {
				feas = append(feas, i)
			}
			continue
		}
		// if all others were infeasible and none found yet, the last must be feasible (pc is sat)
		if i == len(conds)-1 && len(feas) == 0 && !m.hasUnknown {
			feas = append(feas, i)
			break
		}
		switch m.solver.CheckWith(c) {
		case Sat:
			feas = append(feas, i)
		case Unsat:
			if m.ex.crossBudget() && !m.crossUnsat(c) {
				m.hasUnknown = true
				m.ex.noteUnknown("solver-disagreement(feasibility)")
				feas = append(feas, i)
			}
		case Unknown:
			m.hasUnknown = true
			m.ex.noteUnknown("feasibility")
			if p := os.Getenv("SYMGO_UNKNOWN_DUMP"); p != "" {
				if f, err := os.OpenFile(p, os.O_CREATE|os.O_APPEND|os.O_WRONLY, 0o644); err == nil {
					fmt.Fprintf(f, "; ---- unknown feasibility query\n")
					for _, t := range m.pc {
						fmt.Fprintf(f, "(assert %s)\n", t.String())
					}
					fmt.Fprintf(f, "(assert %s)\n(check-sat)\n", c.String())
					f.Close()
				}
			}
			feas = append(feas, i)
		}
	}
	if len(feas) == 0 {
		panic(pathEnd{"infeasible"})
	}
	first := feas[0]
	for _, alt := range feas[1:] {
		tr := append(append([]int(nil), m.trace...), alt)
		m.ex.push(tr)
	}
	m.trace = append(m.trace, first)
	m.assume(conds[first])
	return first
}

// concretize turns an Int term into a concrete value in [lo,hi] by forking.
func (m *Machine) concretize(t *Term, lo, hi int64) int64 {
	if t.IsConst() {
		return t.I.Int64()
	}
	if hi-lo > 256 {
		panic(unmodelled{"concretize range too large"})
	}
	var conds []*Term
	for v := lo; v <= hi; v++ {
		conds = append(conds, mkEq(t, mkInt(v)))
	}
	// out-of-range alternative
	conds = append(conds, mkOr(mkLt(t, mkInt(lo)), mkLt(mkInt(hi), t)))
	i := m.decideN(conds)
	if i == len(conds)-1 {
		panic(pathEnd{"bound-exceeded:concretize"})
	}
	return lo + int64(i)
}

func (m *Machine) newInput(name, kind string, so Sort) *Term {
	key := m.inputName(name)
	pfx := map[Sort]string{SBool: "b_", SInt: "i_", SStr: "s_"}[so]
	t := mkVar(smtIdent(pfx, key), so)
	m.inputs = append(m.inputs, InputVar{Name: key, Kind: kind, Term: t})
	return t
}

// rangeOblig records that an integer result must lie inside its Go type.
func (m *Machine) rangeOblig(t *Term, lo, hi *big.Int) {
	if t.IsConst() {
		return
	}
	m.oblig = append(m.oblig, mkAnd(mkLe(mkBig(lo), t), mkLe(t, mkBig(hi))))
}

func (m *Machine) modelOfInputs() (map[string]any, map[string]*Term, bool) {
	var ts []*Term
	for _, in := range m.inputs {
		ts = append(ts, in.Term)
	}
	vals, err := m.solver.GetValues(ts)
	if err != nil {
		return nil, nil, false
	}
	out := map[string]any{}
	for _, in := range m.inputs {
		v := vals[in.Term.String()]
		if v == nil {
			continue
		}
		switch v.Sort {
		case SBool:
			out[in.Name] = v.B
		case SInt:
			if v.I.IsInt64() {
				out[in.Name] = v.I.Int64()
			} else {
				out[in.Name] = v.I.String()
			}
		case SStr:
			out[in.Name] = v.S
		}
	}
	return out, vals, true
}

func (m *Machine) pcString() string {
	var ss []string
	for _, p := range m.pc {
		ss = append(ss, p.String())
	}
	return strings.Join(ss, "\n")
}

func sortedKeys(m map[string]bool) []string {
	var ks []string
	for k := range m {
		ks = append(ks, k)
	}
	sort.Strings(ks)
	return ks
}
