package interp

// Ghost lockset for sync.Mutex / sync.RWMutex (semantically no-ops in the
// single-threaded interpreter) used by the C19 lock-discipline checks.

import "fmt"

type lockEvent struct {
	Mutex string // identity (address) of the mutex
	Mode  string // "R" | "W"
	Acq   bool
	Held  []string // mutexes held at that moment (before the operation)
	Fn    string
}

type lockState struct {
	held   map[string]string // mutex -> mode
	order  []string          // acquisition order of held mutexes
	events []lockEvent
	names  map[string]string // address -> registered name
}

func (m *Machine) lockOp(fr *frame, mu value, mode string, acquire bool) {
	if m.locks == nil {
		m.locks = &lockState{held: map[string]string{}, names: map[string]string{}}
	}
	ls := m.locks
	id := fmt.Sprintf("%p", mu)
	if n, ok := ls.names[id]; ok {
		id = n
	}
	fn := ""
	if fr != nil && fr.caller != nil {
		fn = fr.caller.fn.String()
	}
	ev := lockEvent{Mutex: id, Mode: mode, Acq: acquire, Fn: fn, Held: append([]string(nil), ls.order...)}
	ls.events = append(ls.events, ev)
	defer m.lockHook(id, acquire, ev.Held, fn)
	if acquire {
		if _, dup := ls.held[id]; dup {
			m.ghost["lockerr"] = append(m.ghost["lockerr"], fmt.Sprintf("re-acquire of held mutex %s in %s", id, fn))
		}
		ls.held[id] = mode
		ls.order = append(ls.order, id)
	} else {
		if _, ok := ls.held[id]; !ok {
			m.ghost["lockerr"] = append(m.ghost["lockerr"], fmt.Sprintf("unlock of unheld mutex %s in %s", id, fn))
		}
		delete(ls.held, id)
		for k, x := range ls.order {
			if x == id {
				ls.order = append(ls.order[:k:k], ls.order[k+1:]...)
				break
			}
		}
	}
}
