package interp

// crypto, encoding, reflection helpers, tracing no-ops and small utilities.

import (
	"crypto"
	"crypto/hmac"
	"crypto/sha256"
	"crypto/sha512"
	"encoding/base64"
	"encoding/binary"
	"fmt"
	"go/types"
	gohash "hash"
	"strings"

	"golang.org/x/tools/go/ssa"
)

// ---- deterministic randomness (A-rand: values are distinct from everything seen before)

func (m *Machine) randBytes(n int) []byte {
	out := make([]byte, 0, n)
	for len(out) < n {
		m.randCtr++
		var b [8]byte
		binary.BigEndian.PutUint64(b[:], m.randCtr)
		h := sha256.Sum256(append([]byte("symgo-rand"), b[:]...))
		out = append(out, h[:]...)
	}
	return out[:n]
}

type hmacObj struct {
	hname string
	hfn   func() gohash.Hash
	key   value
	data  *Term
}

type hashObj struct {
	hname string
	hfn   func() gohash.Hash
	data  *Term
}

var knownHashes = map[string]func() gohash.Hash{
	"crypto/sha512.New512_256": sha512.New512_256,
	"crypto/sha512.New":        sha512.New,
	"crypto/sha512.New384":     sha512.New384,
	"crypto/sha256.New":        sha256.New,
}

var hashSizes = map[string]int64{"crypto/sha512.New512_256": 32, "crypto/sha512.New": 64, "crypto/sha512.New384": 48, "crypto/sha256.New": 32}

func concreteBytes(v value) ([]byte, bool) {
	switch x := v.(type) {
	case []value:
		out := make([]byte, len(x))
		for i, e := range x {
			b, ok := e.(byte)
			if !ok {
				return nil, false
			}
			out[i] = b
		}
		return out, true
	case absBytes:
		if x.t.IsConst() {
			return []byte(x.t.S), true
		}
	case string:
		return []byte(x), true
	}
	return nil, false
}

func bytesValue(b []byte) value {
	out := make([]value, len(b))
	for i := range b {
		out[i] = b[i]
	}
	return out
}

func termBytes(t *Term) value {
	if t.IsConst() {
		return bytesValue([]byte(t.S))
	}
	return absBytes{t}
}

func hashName(v value) (string, func() gohash.Hash) {
	switch f := v.(type) {
	case *ssa.Function:
		n := f.String()
		return n, knownHashes[n]
	case *closure:
		return "closure:" + f.Fn.String(), nil
	}
	return fmt.Sprintf("%T", v), nil
}

func (m *Machine) hashSum(hname string, hfn func() gohash.Hash, data *Term) value {
	if data.IsConst() && hfn != nil {
		h := hfn()
		h.Write([]byte(data.S))
		sum := h.Sum(nil)
		if hashSumHookConcrete != nil {
			hashSumHookConcrete(m, hname, data.S, sum)
		}
		return bytesValue(sum)
	}
	r := mkUF(smtIdent("u_hash_", hname), SStr, data)
	if n, ok := hashSizes[hname]; ok {
		m.assume(mkEq(mkLen(r), mkInt(n)))
	}
	if hashSumHookSymbolic != nil {
		hashSumHookSymbolic(m, hname, data, r)
	}
	return absBytes{r}
}

// hooks (installed by intr_x_agentD.go): link natively computed and symbolic applications
var (
	hashSumHookConcrete func(m *Machine, hname string, data string, sum []byte)
	hashSumHookSymbolic func(m *Machine, hname string, data, r *Term)
	b64HookConcrete     func(m *Machine, fname string, in []byte, out string)
	b64HookSymbolic     func(m *Machine, fname string, x, r *Term)
)

func init() {
	reg("io.ReadFull", func(fr *frame, a []value) value {
		it := a[0].(iface)
		n, ok := it.v.(native)
		if _, isRand := n.v.(randReaderTag); !ok || !isRand {
			panic(unmodelled{"io.ReadFull on a reader other than crypto/rand.Reader"})
		}
		buf := a[1].([]value)
		rb := fr.i.m.randBytes(len(buf))
		for k := range buf {
			buf[k] = rb[k]
		}
		fr.i.m.note("A-rand: crypto/rand and uuid.New return values distinct from all values already present (deterministic per path in the engine)")
		return tuple{len(buf), iface{}}
	})
	reg("crypto/rand.Read", func(fr *frame, a []value) value {
		buf := a[0].([]value)
		rb := fr.i.m.randBytes(len(buf))
		for k := range buf {
			buf[k] = rb[k]
		}
		return tuple{len(buf), iface{}}
	})
	reg("github.com/google/uuid.New", func(fr *frame, a []value) value {
		b := fr.i.m.randBytes(16)
		return native{uuidVal(fmt.Sprintf("%x-%x-4%x-8%x-%x", b[0:4], b[4:6], b[6:8][0:2][:1], b[8:10][:1], b[10:16]))}
	})
	reg("github.com/google/uuid.NewString", func(fr *frame, a []value) value {
		b := fr.i.m.randBytes(16)
		return fmt.Sprintf("%x-%x-%x-%x-%x", b[0:4], b[4:6], b[6:8], b[8:10], b[10:16])
	})
	reg("(github.com/google/uuid.UUID).String", func(fr *frame, a []value) value {
		return string(a[0].(native).v.(uuidVal))
	})
	reg("github.com/ory/x/randx.RuneSequence", func(fr *frame, a []value) value {
		n := int(asInt64(a[0]))
		alpha := a[1].([]value)
		rb := fr.i.m.randBytes(n)
		out := make([]value, n)
		for k := range out {
			out[k] = alpha[int(rb[k])%len(alpha)]
		}
		return tuple{out, iface{}}
	})
	reg("github.com/ory/x/randx.MustString", func(fr *frame, a []value) value {
		n := int(asInt64(a[0]))
		alpha := a[1].([]value)
		rb := fr.i.m.randBytes(n)
		var sb strings.Builder
		for k := 0; k < n; k++ {
			sb.WriteRune(rune(alpha[int(rb[k])%len(alpha)].(int32)))
		}
		return sb.String()
	})

	// ---- hmac / hashes
	reg("crypto/hmac.New", func(fr *frame, a []value) value {
		n, f := hashName(a[0])
		return iface{t: nativeAnyT, v: &hmacObj{hname: n, hfn: f, key: a[1], data: mkStr("")}}
	})
	for n := range knownHashes {
		n := n
		reg(n, func(fr *frame, a []value) value {
			return iface{t: nativeAnyT, v: &hashObj{hname: n, hfn: knownHashes[n], data: mkStr("")}}
		})
	}
	reg("crypto/sha256.Sum256", func(fr *frame, a []value) value {
		r := fr.i.m.hashSum("crypto/sha256.New", sha256.New, bytesTerm(a[0]))
		if bs, ok := r.([]value); ok {
			return array(bs)
		}
		return r
	})
	reg("crypto/hmac.Equal", func(fr *frame, a []value) value { return bytesEqual(a[0], a[1]) })
	reg("bytes.Equal", func(fr *frame, a []value) value { return bytesEqual(a[0], a[1]) })
	reg("crypto/subtle.ConstantTimeCompare", func(fr *frame, a []value) value {
		r := bytesEqual(a[0], a[1])
		if b, ok := r.(bool); ok {
			if b {
				return 1
			}
			return 0
		}
		return mkIte(r.(*Term), mkInt(1), mkInt(0))
	})
	reg("(crypto.Hash).Size", func(fr *frame, a []value) value { return crypto.Hash(asUint64(a[0])).Size() })
	reg("(crypto.Hash).New", func(fr *frame, a []value) value {
		h := crypto.Hash(asUint64(a[0]))
		name := map[crypto.Hash]string{crypto.SHA256: "crypto/sha256.New", crypto.SHA384: "crypto/sha512.New384", crypto.SHA512: "crypto/sha512.New"}[h]
		if name == "" {
			panic(unmodelled{"crypto.Hash.New for " + h.String()})
		}
		return iface{t: nativeAnyT, v: &hashObj{hname: name, hfn: knownHashes[name], data: mkStr("")}}
	})

	// ---- base64 (symbolic): methods on *base64.Encoding receivers
	nativeMethodIntrinsics["*base64.Encoding.EncodeToString"] = b64Encode
	nativeMethodIntrinsics["*base64.Encoding.DecodeString"] = b64Decode
	reg("(*encoding/base64.Encoding).EncodeToString", b64Encode)
	reg("(*encoding/base64.Encoding).DecodeString", b64Decode)
	reg("(*encoding/base64.Encoding).WithPadding", func(fr *frame, a []value) value {
		return native{a[0].(native).v.(*base64.Encoding).WithPadding(rune(asInt64(a[1])))}
	})
	reg("(encoding/base64.Encoding).WithPadding", func(fr *frame, a []value) value {
		e := a[0].(native).v.(*base64.Encoding)
		return native{e.WithPadding(rune(asInt64(a[1])))}
	})

	// ---- bcrypt: exact injective model  hash(p) = "$zzbcrypt$" ++ p  (A-bcrypt)
	reg("golang.org/x/crypto/bcrypt.GenerateFromPassword", func(fr *frame, a []value) value {
		fr.i.m.note("A-bcrypt: bcrypt is modelled as an injective hash; CompareHashAndPassword(h,p) succeeds iff h was generated from p")
		return tuple{termBytes(mkConcat(mkStr("$zzbcrypt$"), bytesTerm(a[0]))), iface{}}
	})
	reg("golang.org/x/crypto/bcrypt.CompareHashAndPassword", func(fr *frame, a []value) value {
		h, p := bytesTerm(a[0]), bytesTerm(a[1])
		eq := mkEq(h, mkConcat(mkStr("$zzbcrypt$"), p))
		if fr.i.m.decide(eq) {
			return iface{}
		}
		return mkSymErr("bcrypt.ErrMismatchedHashAndPassword", "crypto/bcrypt: hashedPassword is not the hash of the given password")
	})

	// ---- tracing: no-ops
	reg("go.opentelemetry.io/otel/trace.SpanFromContext", func(fr *frame, a []value) value {
		return iface{t: nativeAnyT, v: &spanObj{}}
	})
	reg("github.com/ory/x/otelx.End", func(fr *frame, a []value) value { return nil })

	// ---- json / templates: record
	reg("encoding/json.Marshal", func(fr *frame, a []value) value {
		m := fr.i.m
		m.ghost["log:json.Marshal"] = append(m.ghost["log:json.Marshal"], a[0])
		return tuple{termBytes(mkVar(m.freshName("s_json"), SStr)), iface{}}
	})
	reg("encoding/json.NewEncoder", func(fr *frame, a []value) value {
		return native{&jsonEncoder{w: a[0]}}
	})
	reg("(*encoding/json.Encoder).Encode", func(fr *frame, a []value) value {
		m := fr.i.m
		enc := a[0].(native).v.(*jsonEncoder)
		m.ghost["log:json.Encode"] = append(m.ghost["log:json.Encode"], a[1])
		writeTo(fr, enc.w, tuple{"json", a[1]})
		return iface{}
	})
	reg("(*html/template.Template).Execute", func(fr *frame, a []value) value {
		m := fr.i.m
		m.ghost["log:template.Execute"] = append(m.ghost["log:template.Execute"], tuple{a[0], a[2]})
		writeTo(fr, a[1], tuple{"template", a[2]})
		return iface{}
	})
	reg("html/template.New", func(fr *frame, a []value) value { return native{&templateObj{name: toString(a[0])}} })
	reg("(*html/template.Template).Parse", func(fr *frame, a []value) value {
		t := a[0].(native).v.(*templateObj)
		t.src, _ = a[1].(string)
		return tuple{a[0], iface{}}
	})
	reg("html/template.Must", func(fr *frame, a []value) value { return a[0] })

	// ---- deepcopy
	reg("github.com/mohae/deepcopy.Copy", func(fr *frame, a []value) value {
		it := a[0].(iface)
		if it.t == nil {
			return it
		}
		return iface{t: it.t, v: deepCopy(it.t, it.v, map[*value]*value{})}
	})

	// ---- small pure helpers interpreted natively on concrete data
	reg("github.com/ory/go-convenience/stringslice.Has", stringsliceHas)
	reg("github.com/ory/x/stringslice.Has", stringsliceHas)
	reg("github.com/ory/go-convenience/stringslice.Unique", func(fr *frame, a []value) value {
		var out []value
		for _, x := range a[0].([]value) {
			dup := false
			for _, y := range out {
				if fr.truth(symEquals(fr, types.Typ[types.String], x, y)) {
					dup = true
					break
				}
			}
			if !dup {
				out = append(out, x)
			}
		}
		return out
	})
	reg("github.com/ory/x/errorsx.Cause", func(fr *frame, a []value) value {
		return intrinsics["github.com/pkg/errors.Cause"](fr, a)
	})

	// ---- i18n (x/text): opaque language tags, no catalog
	externalGlobals["golang.org/x/text/language.English"] = func(i *interpreter) value { return native{langTag("en")} }
	externalGlobals["golang.org/x/text/language.Und"] = func(i *interpreter) value { return native{langTag("und")} }
	reg("golang.org/x/text/language.MustParse", func(fr *frame, a []value) value { return native{langTag(toString(a[0]))} })

	// ---- reflect (the fork's shim)
	reg("reflect.TypeOf", ext۰reflect۰TypeOf)
	reg("reflect.ValueOf", ext۰reflect۰ValueOf)
	reg("reflect.New", ext۰reflect۰New)
	reg("reflect.Zero", ext۰reflect۰Zero)
	reg("(reflect.Value).Kind", ext۰reflect۰Value۰Kind)
	reg("(reflect.Value).Type", ext۰reflect۰Value۰Type)
	reg("(reflect.Value).Elem", ext۰reflect۰Value۰Elem)
	reg("(reflect.Value).Interface", ext۰reflect۰Value۰Interface)
	reg("(reflect.Value).IsNil", ext۰reflect۰Value۰IsNil)
	reg("(reflect.Value).IsValid", ext۰reflect۰Value۰IsValid)
	reg("(reflect.Value).Len", ext۰reflect۰Value۰Len)
	reg("(reflect.Value).Set", func(fr *frame, a []value) value {
		// v.Set(x) where v = reflect.New(T).Elem(): v's payload is a pointer cell
		dst := rV2V(a[0])
		if p, ok := dst.(*value); ok && p != nil {
			*p = rV2V(a[1])
			return nil
		}
		panic(unmodelled{"reflect.Value.Set on non-addressable shim value"})
	})
	reg("(reflect.rtype).Kind", ext۰reflect۰rtype۰Kind)
	reg("(reflect.rtype).String", ext۰reflect۰rtype۰String)
	reg("(reflect.rtype).Elem", ext۰reflect۰rtype۰Elem)
	// Name / PkgPath: of a defined type (or basic type); "" for unnamed composite types, as reflect does
	reg("(reflect.rtype).Name", func(fr *frame, a []value) value {
		switch t := types.Unalias(a[0].(rtype).t).(type) {
		case *types.Named:
			return t.Obj().Name()
		case *types.Basic:
			return t.Name()
		}
		return ""
	})
	reg("(reflect.rtype).PkgPath", func(fr *frame, a []value) value {
		if t, ok := types.Unalias(a[0].(rtype).t).(*types.Named); ok && t.Obj().Pkg() != nil {
			return t.Obj().Pkg().Path()
		}
		return ""
	})
	reg("(reflect.error).Error", ext۰reflect۰error۰Error)
}

type uuidVal string
type langTag string
type spanObj struct{}
type jsonEncoder struct{ w value }
type templateObj struct{ name, src string }

func stringsliceHas(fr *frame, a []value) value {
	for _, x := range a[0].([]value) {
		if fr.truth(symEquals(fr, types.Typ[types.String], x, a[1])) {
			return true
		}
	}
	return false
}

func bytesEqual(x, y value) value {
	bx, okx := concreteBytes(x)
	by, oky := concreteBytes(y)
	if okx && oky {
		return hmac.Equal(bx, by) || (len(bx) == 0 && len(by) == 0)
	}
	if r, ok := macEqSimplify(bytesTerm(x), bytesTerm(y)); ok { // agentF1: A-mac injectivity, syntactically
		return boolVal(r)
	}
	return boolVal(mkEq(bytesTerm(x), bytesTerm(y)))
}

func b64Name(e *base64.Encoding) string {
	switch {
	case e == base64.StdEncoding:
		return "u_b64std"
	case e == base64.RawStdEncoding:
		return "u_b64rawstd"
	case e == base64.URLEncoding:
		return "u_b64urlpad"
	}
	return "u_b64url" // RawURLEncoding and URLEncoding.WithPadding(NoPadding) coincide
}

func b64Encode(fr *frame, a []value) value {
	e := a[0].(native).v.(*base64.Encoding)
	if b, ok := concreteBytes(a[1]); ok {
		out := e.EncodeToString(b)
		if b64HookConcrete != nil {
			b64HookConcrete(fr.i.m, b64Name(e), b, out)
		}
		return out
	}
	m := fr.i.m
	x := bytesTerm(a[1])
	n := b64Name(e)
	r := mkUF(n, SStr, x)
	if b64HookSymbolic != nil {
		b64HookSymbolic(m, n, x, r)
	}
	// decode inverts encode; the output alphabet has no separators
	m.assume(mkEq(mkUF(n+"_dec", SStr, r), x))
	m.assume(mkUF(n+"_ok", SBool, r))
	m.assume(mkNot(mkContains(r, mkStr("."))))
	m.assume(mkEq(mkEq(r, mkStr("")), mkEq(x, mkStr(""))))
	b64EncodeAxioms(m, e, n, x, r) // agentF1: exact alphabet/length, decode injectivity
	return r
}

func b64Decode(fr *frame, a []value) value {
	e := a[0].(native).v.(*base64.Encoding)
	if s, ok := a[1].(string); ok {
		b, err := e.DecodeString(s)
		if err != nil {
			return tuple{[]value(nil), mkNativeErr(err)}
		}
		return tuple{bytesValue(b), iface{}}
	}
	m := fr.i.m
	s := strArg(a[1])
	n := b64Name(e)
	if s.Op == "uf" && s.S == n && len(s.Args) == 1 {
		return tuple{termBytes(s.Args[0]), iface{}} // agentF1: dec(enc(x)) = x
	}
	b64DecodeAxioms(m, e, n, s, mkUF(n+"_ok", SBool, s)) // agentF1: decodability is a regular language
	if !m.decide(mkUF(n+"_ok", SBool, s)) {
		return tuple{[]value(nil), mkSymErr("base64.CorruptInputError", "illegal base64 data")}
	}
	b64DecodedAxioms(m, e, n, s, mkUF(n+"_dec", SStr, s)) // agentF1
	return tuple{absBytes{mkUF(n+"_dec", SStr, s)}, iface{}}
}

// writeTo records output written through an io.Writer / http.ResponseWriter held by the harness.
func writeTo(fr *frame, w value, what value) {
	m := fr.i.m
	m.ghost["log:written"] = append(m.ghost["log:written"], what)
}

// deepCopy copies the value graph reachable from v (pointers, slices, maps), like mohae/deepcopy.
func deepCopy(t types.Type, v value, seen map[*value]*value) value {
	switch x := v.(type) {
	case *value:
		if x == nil {
			return x
		}
		if c, ok := seen[x]; ok {
			return c
		}
		nc := new(value)
		seen[x] = nc
		var et types.Type
		if pt, ok := t.Underlying().(*types.Pointer); ok {
			et = pt.Elem()
		}
		*nc = deepCopy(et, *x, seen)
		return nc
	case structure:
		out := make(structure, len(x))
		var st *types.Struct
		if t != nil {
			st, _ = t.Underlying().(*types.Struct)
		}
		for k := range x {
			var ft types.Type
			if st != nil {
				ft = st.Field(k).Type()
				// deepcopy skips unexported fields (leaves zero values)
				if !st.Field(k).Exported() {
					out[k] = zero(ft)
					continue
				}
			}
			out[k] = deepCopy(ft, x[k], seen)
		}
		return out
	case array:
		out := make(array, len(x))
		for k := range x {
			out[k] = deepCopy(nil, x[k], seen)
		}
		return out
	case []value:
		if x == nil {
			return x
		}
		out := make([]value, len(x))
		var et types.Type
		if t != nil {
			if sl, ok := t.Underlying().(*types.Slice); ok {
				et = sl.Elem()
			}
		}
		for k := range x {
			out[k] = deepCopy(et, x[k], seen)
		}
		return out
	case *omap:
		if x == nil {
			return x
		}
		out := &omap{keyType: x.keyType}
		var et types.Type
		if t != nil {
			if mt, ok := t.Underlying().(*types.Map); ok {
				et = mt.Elem()
			}
		}
		for _, e := range x.entries {
			out.entries = append(out.entries, &omapEntry{e.key, deepCopy(et, e.val, seen)})
		}
		return out
	case iface:
		if x.t == nil {
			return x
		}
		return iface{t: x.t, v: deepCopy(x.t, x.v, seen)}
	}
	return v
}
