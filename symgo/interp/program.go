package interp

// Program loading: /repo working tree + harness overlay -> SSA.

import (
	"fmt"
	"go/types"
	"os"
	"path/filepath"
	"sort"
	"strings"

	"golang.org/x/tools/go/packages"
	"golang.org/x/tools/go/ssa"
	"golang.org/x/tools/go/ssa/ssautil"
)

const fositePrefix = "github.com/ory/fosite"

// interpretable external packages (pure Go, no unsafe on the used paths)
var interpExternal = map[string]bool{
	"github.com/ory/x/stringslice": false,
	"slices":                       true,
	"maps":                         true,
	// built (bodies available) so that the functions listed in interpFuncs can be interpreted
	"github.com/go-jose/go-jose/v3/jwt": false,
}

// interpFuncs: simple pure-Go functions of external packages that are executed from their SSA
// instead of being modelled (an intrinsic with the same name takes precedence).
var interpFuncs = map[string]bool{
	"(github.com/go-jose/go-jose/v3/jwt.Claims).Validate":           true,
	"(github.com/go-jose/go-jose/v3/jwt.Claims).ValidateWithLeeway": true,
	"(*github.com/go-jose/go-jose/v3/jwt.NumericDate).Time":         true,
	"(github.com/go-jose/go-jose/v3/jwt.Audience).Contains":         true,
	"github.com/go-jose/go-jose/v3/jwt.NewNumericDate":              true,
}

type Program struct {
	Prog      *ssa.Program
	Pkgs      []*ssa.Package          // interpreted packages in dependency order
	ByPath    map[string]*ssa.Package // all ssa packages by path
	Harnesses map[string]*ssa.Function
	RepoDir   string
	Overlay   map[string][]byte
	maxSteps  int64
	maxStrLen int64
	maxSplit  int

	runtimeErrorString types.Type
	reflectPackage     *ssa.Package
	errorMethods       methodSet
	rtypeMethods       methodSet
	initOrder          []*ssa.Package
	LoadSeconds        float64
}

// BuildOverlay maps every file under harnessDir (mirroring the repo tree) into repoDir.
func BuildOverlay(harnessDir, repoDir string) (map[string][]byte, []string, error) {
	ov := map[string][]byte{}
	pkgDirs := map[string]bool{}
	err := filepath.Walk(harnessDir, func(p string, info os.FileInfo, err error) error {
		if err != nil {
			return err
		}
		if info.IsDir() || !strings.HasSuffix(p, ".go") {
			return nil
		}
		rel, _ := filepath.Rel(harnessDir, p)
		data, err := os.ReadFile(p)
		if err != nil {
			return err
		}
		ov[filepath.Join(repoDir, rel)] = data
		if !strings.HasSuffix(p, "_test.go") {
			pkgDirs["./"+filepath.ToSlash(filepath.Dir(rel))] = true
		}
		return nil
	})
	var dirs []string
	for d := range pkgDirs {
		dirs = append(dirs, d)
	}
	sort.Strings(dirs)
	return ov, dirs, err
}

// Dropped lists harness files that were left out because they do not compile against the tree under
// check (a harness that refers to an unexported name the tree no longer has says nothing about the
// property: it is reported as inconclusive, the other harnesses run).
var Dropped []string

func Load(repoDir string, overlay map[string][]byte, patterns []string) (*Program, error) {
	var initial []*packages.Package
	for round := 0; ; round++ {
		cfg := &packages.Config{
			Mode:    packages.LoadAllSyntax,
			Dir:     repoDir,
			Overlay: overlay,
			Env:     append(os.Environ(), "GOFLAGS=-mod=mod", "GOPROXY=off", "GOSUMDB=off", "GOTOOLCHAIN=local"),
		}
		var err error
		initial, err = packages.Load(cfg, patterns...)
		if err != nil {
			return nil, err
		}
		nerr := 0
		bad := map[string]string{} // overlay file -> first error
		packages.Visit(initial, nil, func(p *packages.Package) {
			for _, e := range p.Errors {
				if !strings.HasPrefix(p.PkgPath, fositePrefix) {
					continue
				}
				nerr++
				file := e.Pos
				if i := strings.Index(file, ".go:"); i >= 0 {
					file = file[:i+3]
				}
				if _, isHarness := overlay[file]; isHarness {
					if _, seen := bad[file]; !seen {
						bad[file] = e.Msg
					}
				} else {
					fmt.Fprintf(os.Stderr, "load error: %s: %v\n", p.PkgPath, e)
				}
			}
		})
		if nerr == 0 {
			break
		}
		if len(bad) == 0 || round > 6 {
			return nil, fmt.Errorf("%d package load errors", nerr)
		}
		for f, msg := range bad {
			if strings.Contains(f, "/zz_verif_h/") {
				// a harness package: leave the whole package out
				dir := filepath.Dir(f)
				for g := range overlay {
					if filepath.Dir(g) == dir {
						delete(overlay, g)
					}
				}
				rel, _ := filepath.Rel(repoDir, dir)
				var keep []string
				for _, pat := range patterns {
					if pat != "./"+filepath.ToSlash(rel) {
						keep = append(keep, pat)
					}
				}
				patterns = keep
			} else {
				delete(overlay, f)
			}
			Dropped = append(Dropped, fmt.Sprintf("%s: %s", strings.TrimPrefix(f, repoDir+"/"), msg))
		}
		if len(patterns) == 0 {
			return nil, fmt.Errorf("no harness compiles against this tree")
		}
	}
	prog, _ := ssautil.AllPackages(initial, ssa.InstantiateGenerics|ssa.SanityCheckFunctions&0)
	p := &Program{Prog: prog, ByPath: map[string]*ssa.Package{}, Harnesses: map[string]*ssa.Function{}, RepoDir: repoDir, Overlay: overlay,
		maxSteps: 20_000_000, maxStrLen: 40, maxSplit: 6}
	for _, sp := range prog.AllPackages() {
		p.ByPath[sp.Pkg.Path()] = sp
	}
	// dependency (init) order over interpreted packages
	seen := map[string]bool{}
	var visit func(pp *packages.Package)
	visit = func(pp *packages.Package) {
		if seen[pp.PkgPath] {
			return
		}
		seen[pp.PkgPath] = true
		var imps []string
		for k := range pp.Imports {
			imps = append(imps, k)
		}
		sort.Strings(imps)
		for _, k := range imps {
			visit(pp.Imports[k])
		}
		if isInterpretedPath(pp.PkgPath) {
			if sp := p.ByPath[pp.PkgPath]; sp != nil {
				sp.Build()
				p.Pkgs = append(p.Pkgs, sp)
			}
		} else if _, ok := interpExternal[pp.PkgPath]; ok {
			if sp := p.ByPath[pp.PkgPath]; sp != nil {
				sp.Build()
			}
		}
	}
	for _, ip := range initial {
		visit(ip)
	}
	for _, sp := range p.Pkgs {
		for name, mem := range sp.Members {
			if fn, ok := mem.(*ssa.Function); ok && strings.HasPrefix(name, "ZZ_") {
				p.Harnesses[name] = fn
			}
		}
	}
	rt := prog.ImportedPackage("runtime")
	if rt == nil {
		return nil, fmt.Errorf("runtime package missing")
	}
	p.runtimeErrorString = rt.Type("errorString").Object().Type()
	p.initReflect()
	return p, nil
}

func isInterpretedPath(path string) bool {
	return path == fositePrefix || strings.HasPrefix(path, fositePrefix+"/")
}

func fnPkgPath(fn *ssa.Function) string {
	if fn.Pkg != nil {
		return fn.Pkg.Pkg.Path()
	}
	if o := fn.Origin(); o != nil && o != fn {
		return fnPkgPath(o)
	}
	if fn.Object() != nil && fn.Object().Pkg() != nil {
		return fn.Object().Pkg().Path()
	}
	if p := fn.Parent(); p != nil {
		return fnPkgPath(p)
	}
	return ""
}

// isInterpreted reports whether fn's body is executed by the interpreter.
func (p *Program) isInterpreted(fn *ssa.Function) bool {
	if fn.Blocks == nil {
		return false
	}
	path := fnPkgPath(fn)
	if path == "" {
		// synthetic wrapper / bound method / thunk: interpret; the wrapped
		// call is dispatched again.
		return true
	}
	if isInterpretedPath(path) {
		return true
	}
	if on, ok := interpExternal[path]; ok && on {
		return true
	}
	if interpFuncs[fn.String()] {
		return true
	}
	return false
}

func newInterpreter(p *Program, m *Machine) *interpreter {
	i := &interpreter{
		prog:               p.Prog,
		globals:            make(map[*ssa.Global]*value),
		sizes:              &types.StdSizes{WordSize: 8, MaxAlign: 8},
		goroutines:         1,
		m:                  m,
		p:                  p,
		runtimeErrorString: p.runtimeErrorString,
		reflectPackage:     p.reflectPackage,
		errorMethods:       p.errorMethods,
		rtypeMethods:       p.rtypeMethods,
	}
	return i
}

// global returns the cell of a package-level variable, allocating lazily.
func (i *interpreter) global(g *ssa.Global) *value {
	if c, ok := i.globals[g]; ok {
		return c
	}
	var cell value
	if ext := externalGlobal(i, g); ext != nil {
		cell = ext
	} else {
		cell = zero(mustDeref(g.Type()))
	}
	i.globals[g] = &cell
	return &cell
}

func (i *interpreter) runInit() {
	for _, sp := range i.p.Pkgs {
		if fn := sp.Func("init"); fn != nil {
			call(i, nil, 0, fn, nil)
		}
	}
}
