package interp

// time.Time as Unix nanoseconds (Int term). The engine clock is symbolic and
// frozen between explicit zz.Advance calls.

import (
	"math/big"
	"time"
)

var timeZero time.Time

func timeToNative(t timeVal) time.Time {
	if !t.ns.IsConst() {
		panic(convErr{"symbolic time"})
	}
	if t.ns.I.Cmp(zeroTimeBig) == 0 {
		return time.Time{}
	}
	if !t.ns.I.IsInt64() {
		sec := new(big.Int).Div(t.ns.I, big.NewInt(1e9))
		ns := new(big.Int).Mod(t.ns.I, big.NewInt(1e9))
		return time.Unix(sec.Int64(), ns.Int64()).UTC()
	}
	return time.Unix(0, t.ns.I.Int64()).UTC()
}

func timeFromNative(v any) value {
	t := v.(time.Time)
	if t.IsZero() {
		return timeVal{mkBig(zeroTimeBig)}
	}
	sec := big.NewInt(t.Unix())
	ns := new(big.Int).Mul(sec, big.NewInt(1e9))
	ns.Add(ns, big.NewInt(int64(t.Nanosecond())))
	return timeVal{mkBig(ns)}
}

const (
	clockLo = 1577836800 // 2020-01-01
	clockHi = 4102444800 // 2100-01-01
)

func (m *Machine) ensureClock() {
	if m.clock != nil {
		return
	}
	if m.concrete {
		m.clock = mkInt(1893456000*1e9 + 123456789) // 2030-01-01
		return
	}
	if m.opts != nil && m.opts["clock.fixed"] != 0 {
		// (agentB) zz.SetOption("clock.fixed", 1): harnesses of properties that do not quantify over time start
		// from a concrete instant (zz.Advance still moves it, possibly by a symbolic amount)
		m.clock = mkInt(1893456000*1e9 + 123456789) // 2030-01-01
		m.note("clock: time.Now() starts at a fixed concrete instant (2030-01-01T00:00:00.123456789Z), frozen while a fosite call runs; only zz.Advance moves it")
		return
	}
	t := mkVar("i_clock0", SInt)
	m.inputs = append(m.inputs, InputVar{Name: "clock0", Kind: "clock", Term: t})
	m.assume(mkAnd(mkLe(mkInt(clockLo*1e9), t), mkLe(t, mkInt(clockHi*1e9))))
	m.clock = t
	m.note("clock: time.Now() returns a symbolic instant in [2020,2100) that is frozen while a fosite call runs and only moves by zz.Advance")
}

func tv(v value) timeVal { return v.(timeVal) }

func durTerm(v value) *Term { return toTerm(v) }

// mkFloorDiv: floor division by positive constant (SMT div is Euclidean => floor for positive divisor).
func mkFloorDiv(a *Term, c int64) *Term {
	if a.IsConst() {
		q := new(big.Int)
		m := new(big.Int)
		q.DivMod(a.I, big.NewInt(c), m)
		return mkBig(q)
	}
	return mkApp("div", SInt, a, mkInt(c))
}

func mkFloorMod(a *Term, c int64) *Term {
	if a.IsConst() {
		q := new(big.Int)
		m := new(big.Int)
		q.DivMod(a.I, big.NewInt(c), m)
		return mkBig(m)
	}
	// (agentB) exact simplification: addends that are multiples of c do not change the residue,
	// (x + k*c) mod c = x mod c. Keeps Round/Truncate of "instant + whole seconds" down to one shared
	// (mod clock c) term instead of a fresh mod per lifetime.
	if r := dropMultiples(a, c); r != a {
		return mkFloorMod(r, c)
	}
	return mkApp("mod", SInt, a, mkInt(c))
}

// dropMultiples removes from the sum a every addend that is syntactically a multiple of c.
func dropMultiples(a *Term, c int64) *Term {
	var addends []*Term
	var flat func(t *Term)
	flat = func(t *Term) {
		if t.Op == "+" {
			for _, x := range t.Args {
				flat(x)
			}
			return
		}
		addends = append(addends, t)
	}
	flat(a)
	bc := big.NewInt(c)
	changed := false
	var keep []*Term
	konst := new(big.Int)
	for _, t := range addends {
		switch {
		case t.IsConst():
			konst.Add(konst, t.I)
		case t.Op == "*" && len(t.Args) == 2 && t.Args[1].IsConst() && new(big.Int).Mod(t.Args[1].I, bc).Sign() == 0:
			changed = true
		case t.Op == "*" && len(t.Args) == 2 && t.Args[0].IsConst() && new(big.Int).Mod(t.Args[0].I, bc).Sign() == 0:
			changed = true
		default:
			keep = append(keep, t)
		}
	}
	if !changed {
		return a
	}
	var r *Term = mkBig(new(big.Int).Mod(konst, bc))
	for _, t := range keep {
		r = mkAdd(t, r)
	}
	return r
}

func init() {
	reg("time.Now", func(fr *frame, a []value) value {
		m := fr.i.m
		m.ensureClock()
		return timeVal{m.clock}
	})
	reg("time.Unix", func(fr *frame, a []value) value {
		sec, ns := toTerm(a[0]), toTerm(a[1])
		return timeVal{mkAdd(mkMul(sec, mkInt(1e9)), ns)}
	})
	reg("time.Since", func(fr *frame, a []value) value {
		fr.i.m.ensureClock()
		return int64Val(mkSub(fr.i.m.clock, tv(a[0]).ns))
	})
	reg("time.Until", func(fr *frame, a []value) value {
		fr.i.m.ensureClock()
		return int64Val(mkSub(tv(a[0]).ns, fr.i.m.clock))
	})
	reg("(time.Time).Add", func(fr *frame, a []value) value {
		return timeVal{mkAdd(tv(a[0]).ns, durTerm(a[1]))}
	})
	reg("(time.Time).Sub", func(fr *frame, a []value) value {
		r := mkSub(tv(a[0]).ns, tv(a[1]).ns)
		lo, hi, _ := intRangeInt64()
		fr.i.m.rangeOblig(r, lo, hi)
		return int64Val(r)
	})
	reg("(time.Time).Before", func(fr *frame, a []value) value { return boolVal(mkLt(tv(a[0]).ns, tv(a[1]).ns)) })
	reg("(time.Time).After", func(fr *frame, a []value) value { return boolVal(mkLt(tv(a[1]).ns, tv(a[0]).ns)) })
	reg("(time.Time).Equal", func(fr *frame, a []value) value { return boolVal(mkEq(tv(a[0]).ns, tv(a[1]).ns)) })
	reg("(time.Time).Compare", func(fr *frame, a []value) value {
		x, y := tv(a[0]).ns, tv(a[1]).ns
		return intVal(mkIte(mkLt(x, y), mkInt(-1), mkIte(mkLt(y, x), mkInt(1), mkInt(0))))
	})
	reg("(time.Time).IsZero", func(fr *frame, a []value) value { return boolVal(mkEq(tv(a[0]).ns, mkBig(zeroTimeBig))) })
	for _, n := range []string{"(time.Time).UTC", "(time.Time).Local"} {
		reg(n, func(fr *frame, a []value) value { return a[0] })
	}
	reg("(time.Time).In", func(fr *frame, a []value) value { return a[0] })
	reg("(time.Time).Unix", func(fr *frame, a []value) value { return int64Val(mkFloorDiv(tv(a[0]).ns, 1e9)) })
	reg("(time.Time).UnixNano", func(fr *frame, a []value) value { return int64Val(tv(a[0]).ns) })
	reg("(time.Time).UnixMilli", func(fr *frame, a []value) value { return int64Val(mkFloorDiv(tv(a[0]).ns, 1e6)) })
	reg("(time.Time).Nanosecond", func(fr *frame, a []value) value { return intVal(mkFloorMod(tv(a[0]).ns, 1e9)) })
	reg("(time.Time).Truncate", func(fr *frame, a []value) value {
		d, ok := a[1].(int64)
		if !ok || d <= 0 {
			if ok {
				return a[0]
			}
			panic(unmodelled{"Truncate by symbolic duration"})
		}
		// Truncate works on absolute time since year 1; for d dividing 1s.. this coincides with Unix-epoch
		// truncation whenever d divides one second or is a whole number of seconds dividing a day (the uses in fosite: time.Second).
		t := tv(a[0]).ns
		return timeVal{mkSub(t, mkFloorMod(t, d))}
	})
	reg("(time.Time).Round", func(fr *frame, a []value) value {
		d, ok := a[1].(int64)
		if !ok || d <= 0 {
			if ok {
				return a[0]
			}
			panic(unmodelled{"Round by symbolic duration"})
		}
		t := tv(a[0]).ns
		r := mkFloorMod(t, d)
		// round half up
		if r.IsConst() {
			if new(big.Int).Mul(r.I, big.NewInt(2)).Cmp(big.NewInt(d)) < 0 {
				return timeVal{mkSub(t, r)}
			}
			return timeVal{mkAdd(mkSub(t, r), mkInt(d))}
		}
		return timeVal{mkIte(mkLt(mkMul(r, mkInt(2)), mkInt(d)), mkSub(t, r), mkAdd(mkSub(t, r), mkInt(d)))}
	})
	reg("(time.Time).Format", func(fr *frame, a []value) value {
		t := tv(a[0])
		if t.ns.IsConst() {
			return timeToNative(t).Format(a[1].(string))
		}
		return mkUF("u_timefmt", SStr, t.ns)
	})
	reg("(time.Time).String", func(fr *frame, a []value) value {
		t := tv(a[0])
		if t.ns.IsConst() {
			return timeToNative(t).String()
		}
		return mkUF("u_timefmt", SStr, t.ns)
	})
	reg("(time.Time).MarshalJSON", func(fr *frame, a []value) value {
		return tuple{absBytes{mkUF("u_timejson", SStr, tv(a[0]).ns)}, iface{}}
	})
	reg("(time.Duration).Seconds", func(fr *frame, a []value) value {
		d := toTerm(a[0])
		if d.IsConst() {
			return time.Duration(d.I.Int64()).Seconds()
		}
		// callers in fosite convert to an integer number of seconds (int64(d.Seconds())):
		// carry the value as an integral float when d is a multiple of 1s, otherwise floor is taken
		// at conversion time. We return a symFloat holding floor(d/1s) and note the approximation.
		fr.i.m.note("Duration.Seconds() of a symbolic duration is modelled as floor(d/1s) (fosite truncates it to an integer)")
		return symFloat{t: mkFloorDiv(d, 1e9)}
	})
	reg("(time.Duration).String", func(fr *frame, a []value) value {
		d := toTerm(a[0])
		if d.IsConst() {
			return time.Duration(d.I.Int64()).String()
		}
		return mkUF("u_durfmt", SStr, d)
	})
	reg("(time.Duration).Round", func(fr *frame, a []value) value {
		d := toTerm(a[0])
		m, ok := a[1].(int64)
		if d.IsConst() && ok {
			return int64(time.Duration(d.I.Int64()).Round(time.Duration(m)))
		}
		panic(unmodelled{"Duration.Round symbolic"})
	})
	reg("(time.Duration).Truncate", func(fr *frame, a []value) value {
		d := toTerm(a[0])
		m, ok := a[1].(int64)
		if d.IsConst() && ok {
			return int64(time.Duration(d.I.Int64()).Truncate(time.Duration(m)))
		}
		panic(unmodelled{"Duration.Truncate symbolic"})
	})
	reg("time.Sleep", func(fr *frame, a []value) value { return nil })
}

func intRangeInt64() (*big.Int, *big.Int, bool) {
	lo := new(big.Int).Lsh(big.NewInt(1), 63)
	hi := new(big.Int).Sub(lo, big.NewInt(1))
	return lo.Neg(lo), hi, true
}
