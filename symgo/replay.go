package main

// Native replay of solver models: the harness is compiled with the same
// overlay (plus a patched time.Now that honours an offset) and run on the
// model's input values.

import (
	"bytes"
	"crypto/sha256"
	"encoding/json"
	"fmt"
	"os"
	"os/exec"
	"path/filepath"
	"reflect"
	"sort"
	"strings"
	"time"

	"golang.org/x/tools/go/ssa"

	"verif/symgo/interp"
)

type replayer struct {
	r       *runner
	dir     string
	bins    map[string]string // package path -> test binary
	ovFile  string
	timeSrc string
}

func goEnv() []string {
	return append(os.Environ(), "GOFLAGS=-mod=mod", "GOPROXY=off", "GOSUMDB=off", "GOTOOLCHAIN=local")
}

func newReplayer(r *runner) *replayer {
	dir, err := os.MkdirTemp("", "verif-replay-")
	if err != nil {
		panic(err)
	}
	return &replayer{r: r, dir: dir, bins: map[string]string{}}
}

func (rp *replayer) cleanup() { os.RemoveAll(rp.dir) }

// patchedTime writes a copy of GOROOT/src/time/time.go whose Now() adds ZZVerifOffset.
func (rp *replayer) patchedTime() (orig, patched string, err error) {
	out, err := exec.Command("go", "env", "GOROOT").Output()
	if err != nil {
		return "", "", err
	}
	orig = filepath.Join(strings.TrimSpace(string(out)), "src", "time", "time.go")
	src, err := os.ReadFile(orig)
	if err != nil {
		return "", "", err
	}
	marker := "func Now() Time {\n\tsec, nsec, mono := now()"
	if !bytes.Contains(src, []byte(marker)) {
		return "", "", fmt.Errorf("time.Now has an unexpected shape in %s", orig)
	}
	repl := "var ZZVerifOffset int64\n\nfunc Now() Time {\n\tif ZZVerifOffset != 0 {\n\t\treturn zzRealNow().Add(Duration(ZZVerifOffset))\n\t}\n\treturn zzRealNow()\n}\n\nfunc zzRealNow() Time {\n\tsec, nsec, mono := now()"
	src = bytes.Replace(src, []byte(marker), []byte(repl), 1)
	patched = filepath.Join(rp.dir, "time.go.patched")
	return orig, patched, os.WriteFile(patched, src, 0o644)
}

func (rp *replayer) binary(fn *ssa.Function) (string, error) {
	pkgPath := fn.Pkg.Pkg.Path()
	race := strings.HasSuffix(fn.Name(), "_race")
	if race {
		pkgPath += " -race"
	}
	if b, ok := rp.bins[pkgPath]; ok {
		if b == "" {
			return "", fmt.Errorf("earlier build failure")
		}
		return b, nil
	}
	rp.bins[pkgPath] = ""
	rel := strings.TrimPrefix(strings.TrimPrefix(fn.Pkg.Pkg.Path(), "github.com/ory/fosite"), "/")
	pkgDir := filepath.Join(rp.r.repo, rel)
	// harness names of this package
	var names []string
	for n, f := range rp.r.prog.Harnesses {
		if f.Pkg == fn.Pkg {
			names = append(names, n)
		}
	}
	sort.Strings(names)
	var tb strings.Builder
	fmt.Fprintf(&tb, "package %s\n\nimport (\n\t\"os\"\n\t\"testing\"\n\t\"time\"\n\n\tzzapi \"github.com/ory/fosite/zz_verif_h/zz\"\n)\n\n", fn.Pkg.Pkg.Name())
	tb.WriteString("func TestZZReplay(t *testing.T) {\n\tzzapi.SetClockOffset = func(d time.Duration) { time.ZZVerifOffset = int64(d) }\n\tswitch os.Getenv(\"ZZ_HARNESS\") {\n")
	for _, n := range names {
		fmt.Fprintf(&tb, "\tcase %q:\n\t\t%s()\n", n, n)
	}
	tb.WriteString("\tdefault:\n\t\tt.Fatal(\"unknown harness\")\n\t}\n}\n")
	testSrc := filepath.Join(rp.dir, "replay_"+fmt.Sprintf("%x", sha256.Sum256([]byte(pkgPath)))[:12]+"_test.go")
	_ = race
	if err := os.WriteFile(testSrc, []byte(tb.String()), 0o644); err != nil {
		return "", err
	}
	replace := map[string]string{}
	for p, data := range rp.r.overlay {
		f := filepath.Join(rp.dir, fmt.Sprintf("ov_%x.go", sha256.Sum256([]byte(p)))[:24])
		if err := os.WriteFile(f, data, 0o644); err != nil {
			return "", err
		}
		replace[p] = f
	}
	replace[filepath.Join(pkgDir, "zz_verif_replay_test.go")] = testSrc
	orig, patched, err := rp.patchedTime()
	if err != nil {
		return "", err
	}
	replace[orig] = patched
	ovJSON, _ := json.Marshal(map[string]any{"Replace": replace})
	ovFile := filepath.Join(rp.dir, "overlay_"+filepath.Base(testSrc)+".json")
	if err := os.WriteFile(ovFile, ovJSON, 0o644); err != nil {
		return "", err
	}
	bin := filepath.Join(rp.dir, "bin_"+filepath.Base(testSrc))
	args := []string{"test", "-c", "-vet=off", "-overlay", ovFile, "-o", bin}
	if race {
		args = append(args, "-race")
	}
	args = append(args, "./"+rel)
	cmd := exec.Command("go", args...)
	cmd.Dir = rp.r.repo
	cmd.Env = goEnv()
	out, err := cmd.CombinedOutput()
	if err != nil {
		return "", fmt.Errorf("go test -c: %v\n%s", err, out)
	}
	rp.bins[pkgPath] = bin
	return bin, nil
}

type replayOut struct {
	raw         string
	failedLabel string
	covers      map[string]bool
	obs         map[string]any
	exit        int
}

func (rp *replayer) run(fn *ssa.Function, model map[string]any, label string) (*replayOut, error) {
	bin, err := rp.binary(fn)
	if err != nil {
		return nil, err
	}
	rf := filepath.Join(rp.dir, "model.json")
	data, _ := json.Marshal(map[string]any{"inputs": model})
	if err := os.WriteFile(rf, data, 0o644); err != nil {
		return nil, err
	}
	confirmLabel = label
	out, err := runReplayBinary(bin, fn.Name(), rf, rp.dir)
	if err == nil && label != "" && out.failedLabel == "" || (err == nil && label != "" && strings.HasPrefix(out.failedLabel, "!")) {
		// concurrency harnesses (_race): a data race, a concurrent-map fatal error, a deadlock watchdog or a
		// contention probe (several goroutines, one fresh key, more than one success of a test-and-set operation)
		// reported by the native run confirms the lock-discipline finding it was derived from
		if strings.HasSuffix(fn.Name(), "_race") && (strings.Contains(out.raw, "WARNING: DATA RACE") || strings.Contains(out.raw, "fatal error: concurrent map") || strings.Contains(out.raw, "ZZ-DEADLOCK") || strings.Contains(out.raw, "ZZ-ATOMICITY")) {
			out.failedLabel = label
		}
	}
	return out, err
}

var replayTier = "quick"
var confirmLabel = ""

func runReplayBinary(bin, harness, replayFile, dir string) (*replayOut, error) {
	limit := 120
	if strings.HasSuffix(harness, "_race") {
		limit = 900 // stress runs of every pair of store operations, possibly on a loaded machine
	}
	cmd := exec.Command(bin, "-test.run", "^TestZZReplay$", "-test.v", "-test.timeout", fmt.Sprintf("%ds", limit))
	cmd.Dir = dir
	cmd.Env = append(os.Environ(), "ZZ_VERIF_REPLAY="+replayFile, "ZZ_HARNESS="+harness, "ZZ_TIER="+replayTier, "GORACE=halt_on_error=1", "ZZ_CONFIRM="+confirmLabel)
	var buf bytes.Buffer
	cmd.Stdout = &buf
	cmd.Stderr = &buf
	done := make(chan error, 1)
	if err := cmd.Start(); err != nil {
		return nil, err
	}
	go func() { done <- cmd.Wait() }()
	select {
	case <-done:
	case <-time.After(time.Duration(limit+30) * time.Second):
		cmd.Process.Kill()
		return nil, fmt.Errorf("replay timed out")
	}
	o := &replayOut{raw: buf.String(), covers: map[string]bool{}, obs: map[string]any{}, exit: cmd.ProcessState.ExitCode()}
	for _, line := range strings.Split(o.raw, "\n") {
		switch {
		case strings.HasPrefix(line, "ZZ-ASSERT-FAIL "):
			o.failedLabel = strings.TrimPrefix(line, "ZZ-ASSERT-FAIL ")
		case strings.HasPrefix(line, "ZZ-COVER "):
			o.covers[strings.TrimPrefix(line, "ZZ-COVER ")] = true
		case strings.HasPrefix(line, "ZZ-OBS "):
			rest := strings.TrimPrefix(line, "ZZ-OBS ")
			if i := strings.IndexByte(rest, ' '); i > 0 {
				var v any
				if json.Unmarshal([]byte(rest[i+1:]), &v) == nil {
					o.obs[rest[:i]] = v
				}
			}
		case strings.HasPrefix(line, "ZZ-REPLAY-ERROR"), strings.HasPrefix(line, "ZZ-ASSUME-FAIL"):
			if o.failedLabel == "" {
				o.failedLabel = "!" + line
			}
		case strings.HasPrefix(line, "panic:"):
			if o.failedLabel == "" {
				o.failedLabel = "!" + line
			}
		}
	}
	return o, nil
}

func normNum(v any) any {
	switch x := v.(type) {
	case float64:
		return int64(x)
	case int:
		return int64(x)
	case []any:
		out := make([]any, len(x))
		for i := range x {
			out[i] = normNum(x[i])
		}
		return out
	case []string:
		out := make([]any, len(x))
		for i := range x {
			out[i] = x[i]
		}
		return out
	}
	return v
}

// agrees compares a native run with the symbolic path it was derived from.
func (o *replayOut) agrees(pr *interp.PathResult) (bool, string) {
	if o.failedLabel != "" {
		return false, "native run failed: " + o.failedLabel
	}
	for _, c := range pr.Covers {
		if !o.covers[c] {
			return false, "cover label not reached natively: " + c
		}
	}
	for k, v := range pr.Obs {
		nv, ok := o.obs[k]
		if !ok {
			return false, "observation missing natively: " + k
		}
		if !reflect.DeepEqual(normNum(v), normNum(nv)) {
			return false, fmt.Sprintf("observation %s: symbolic %v native %v", k, v, nv)
		}
	}
	return true, ""
}

func (rp *replayer) save(prop, harness, label string, model map[string]any, raw string) string {
	dir := filepath.Join(rp.r.verif, "replays", prop)
	os.MkdirAll(dir, 0o755)
	data, _ := json.MarshalIndent(map[string]any{"property": prop, "harness": harness, "assert": label, "tier": rp.r.tier, "inputs": model, "native_output": raw}, "", " ")
	h := sha256.Sum256(data)
	lab := strings.Map(func(r rune) rune {
		if r >= 'a' && r <= 'z' || r >= 'A' && r <= 'Z' || r >= '0' && r <= '9' || r == '-' || r == '_' {
			return r
		}
		return '_'
	}, label)
	p := filepath.Join(dir, fmt.Sprintf("%s-%s-%x.json", harness, lab, h[:4]))
	os.WriteFile(p, data, 0o644)
	return p
}

// replayOne re-runs a saved replay file natively (./check --replay <path>).
func (r *runner) replayOne(path string) int {
	data, err := os.ReadFile(path)
	if err != nil {
		fmt.Fprintln(os.Stderr, err)
		return 2
	}
	var rf struct {
		Property, Harness, Assert string
		Tier                      string
		Inputs                    map[string]any
	}
	if err := json.Unmarshal(data, &rf); err != nil {
		fmt.Fprintln(os.Stderr, err)
		return 2
	}
	if rf.Tier != "" {
		replayTier = rf.Tier // (agentD) replay under the tier the file was recorded in
	}
	r.prop = rf.Property
	r.load(r.harnessDirs(rf.Property))
	fn := r.prog.Harnesses[rf.Harness]
	if fn == nil {
		fmt.Fprintln(os.Stderr, "unknown harness", rf.Harness)
		return 2
	}
	rp := newReplayer(r)
	defer rp.cleanup()
	out, err := rp.run(fn, rf.Inputs, rf.Assert)
	if err != nil {
		fmt.Fprintln(os.Stderr, err)
		return 2
	}
	fmt.Print(out.raw)
	if out.failedLabel != "" {
		fmt.Printf("REPLAY: assertion %q fails natively\n", out.failedLabel)
		return 1
	}
	fmt.Println("REPLAY: no assertion fails natively")
	return 0
}
