// symgo: solver-based checking of ory/fosite properties by symbolic execution
// of the Go SSA of /repo's current working tree.
package main

import (
	"encoding/json"
	"flag"
	"fmt"
	"os"
	"path/filepath"
	"runtime"
	"sort"
	"strings"
	"time"

	"verif/symgo/interp"
)

func main() {
	var (
		repo     = flag.String("repo", "/repo", "repository working tree")
		verif    = flag.String("verif", "/verif", "verification directory")
		prop     = flag.String("prop", "", "property id (e.g. C12)")
		tier     = flag.String("tier", "quick", "quick|thorough")
		only     = flag.String("harness", "", "run only this harness function")
		seed     = flag.Int("seed", 0, "seed (exploration order only)")
		workers  = flag.Int("workers", 0, "worker count (default: NumCPU)")
		solver   = flag.String("solver", "cvc5", "cvc5|z3|z3-new")
		noReplay = flag.Bool("noreplay", false, "skip native replays (debug)")
		replay   = flag.String("replay", "", "re-run one replay file natively")
		trace    = flag.Bool("trace", false, "debug output")
		maxPaths = flag.Int("maxpaths", 0, "override path budget")
		cross    = flag.String("cross", "", "second solver cross-checking unsat verdicts (default: z3 in the thorough tier; 'none' disables)")
		list     = flag.Bool("list", false, "list harnesses")
		inventory = flag.Bool("inventory", false, "list external callees of fosite and their treatment")
	)
	flag.Parse()
	if s := os.Getenv("VERIF_SEED"); s != "" && *seed == 0 {
		fmt.Sscan(s, seed)
	}
	if *workers == 0 {
		*workers = runtime.NumCPU()
	}
	r := &runner{repo: *repo, verif: *verif, prop: *prop, tier: *tier, seed: *seed, workers: *workers, solver: *solver,
		noReplay: *noReplay, trace: *trace, only: *only, maxPaths: *maxPaths, cross: *cross}
	if *replay != "" {
		os.Exit(r.replayOne(*replay))
	}
	if *list {
		r.load(nil)
		var ns []string
		for n := range r.prog.Harnesses {
			ns = append(ns, n)
		}
		sort.Strings(ns)
		fmt.Println(strings.Join(ns, "\n"))
		return
	}
	if *inventory {
		r.load(nil)
		fmt.Println(strings.Join(r.prog.Inventory(), "\n"))
		return
	}
	if *prop == "" {
		fmt.Fprintln(os.Stderr, "usage: symgo -prop Cnn [-tier quick|thorough]")
		os.Exit(2)
	}
	os.Exit(r.run())
}

type runner struct {
	repo, verif, prop, tier, solver, only, cross string
	seed, workers, maxPaths               int
	noReplay, trace                       bool
	prog                                  *interp.Program
	overlay                               map[string][]byte
	scratch                               string
}

// harnessDirs returns the overlay package dirs that contain harnesses of the property.
func (r *runner) harnessDirs(prop string) []string {
	hd := filepath.Join(r.verif, "harness")
	dirs := map[string]bool{}
	filepath.Walk(hd, func(p string, info os.FileInfo, err error) error {
		if err != nil || info.IsDir() || !strings.HasSuffix(p, ".go") {
			return nil
		}
		data, _ := os.ReadFile(p)
		if prop == "" || strings.Contains(string(data), "func ZZ_"+prop+"_") {
			rel, _ := filepath.Rel(hd, filepath.Dir(p))
			dirs["./"+filepath.ToSlash(rel)] = true
		}
		return nil
	})
	var out []string
	for d := range dirs {
		out = append(out, d)
	}
	sort.Strings(out)
	return out
}

func (r *runner) load(dirs []string) {
	t0 := time.Now()
	ov, all, err := interp.BuildOverlay(filepath.Join(r.verif, "harness"), r.repo)
	if err != nil {
		fmt.Fprintln(os.Stderr, "overlay:", err)
		os.Exit(2)
	}
	r.overlay = ov
	if dirs == nil {
		dirs = all
	}
	p, err := interp.Load(r.repo, ov, dirs)
	for _, d := range interp.Dropped {
		fmt.Printf("INCONCLUSIVE harness-does-not-compile-against-this-tree %s\n", d)
	}
	if err != nil {
		fmt.Fprintln(os.Stderr, "load:", err)
		if len(interp.Dropped) > 0 {
			// the tree itself compiles, the harnesses do not fit it: nothing was decided, nothing is alleged
			fmt.Printf("%s %s: harnesses=0 (no harness compiles against this tree) violations=0\n", r.prop, r.tier)
			os.Exit(0)
		}
		os.Exit(2)
	}
	p.LoadSeconds = time.Since(t0).Seconds()
	r.prog = p
}

func (r *runner) run() int {
	t0 := time.Now()
	dirs := r.harnessDirs(r.prop)
	if len(dirs) == 0 {
		fmt.Fprintf(os.Stderr, "no harnesses for %s\n", r.prop)
		return 2
	}
	r.load(dirs)
	var names []string
	for n := range r.prog.Harnesses {
		if strings.HasPrefix(n, "ZZ_"+r.prop+"_") && (r.only == "" || r.only == n) {
			if strings.HasSuffix(n, "_T") && r.tier != "thorough" {
				continue // thorough-only harness
			}
			names = append(names, n)
		}
	}
	sort.Strings(names)
	if len(names) == 0 {
		fmt.Fprintf(os.Stderr, "no harness functions for %s\n", r.prop)
		return 2
	}
	ev := newEvidence(r.prop, r.tier, r.seed)
	kf := loadKnownFindings(filepath.Join(r.verif, "known_findings.json"))
	exit := 0
	cfg := interp.Config{Workers: r.workers, Solver: r.solver, TimeoutMs: 10000, MaxPaths: 12000, MaxDecisions: 400, Trace: r.trace,
		CrossSolver: "z3", CrossBudget: 100}
	if r.tier == "thorough" {
		cfg.TimeoutMs = 60000
		cfg.MaxPaths = 400000
		cfg.MaxDecisions = 1500
		cfg.CrossSolver = "z3"
		cfg.CrossBudget = 400
	}
	if r.cross != "" {
		cfg.CrossSolver = r.cross
		if r.cross == "none" {
			cfg.CrossSolver = ""
		}
	}
	if r.maxPaths > 0 {
		cfg.MaxPaths = r.maxPaths
	}
	cfg.Thorough = r.tier == "thorough"
	replayTier = r.tier
	var rp *replayer
	defer func() {
		if rp != nil {
			rp.cleanup()
		}
	}()
	for _, n := range names {
		fn := r.prog.Harnesses[n]
		// wall-clock budget per harness (a change to the code under check can make the path count explode):
		// what is not explored by then is reported as bound-exceeded, never as held
		budget := 5 * time.Minute
		if cfg.Thorough {
			budget = 75 * time.Minute
		}
		cfg.Deadline = time.Now().Add(budget)
		res := interp.Explore(r.prog, fn, cfg)
		hs := ev.addHarness(res)
		fmt.Printf("harness %s: paths=%d completed=%d edges=%d queries=%d (sat %d unsat %d unknown %d) solver=%.1fs wall=%.1fs discharged=%d concrete-true=%d candidates=%d\n",
			n, len(res.Paths), res.Completed, res.Edges, res.Stats.Queries, res.Stats.Sat, res.Stats.Unsat, res.Stats.Unknown,
			float64(res.Stats.Nanos)/1e9, res.Wall.Seconds(), res.Discharged, res.ConcreteTrue, len(res.Violations))
		if res.CrossAgree+res.CrossUnknown+res.CrossDisagree > 0 {
			fmt.Printf("  second solver (%s) on unsat verdicts: confirmed=%d unknown=%d disagreed=%d\n", cfg.CrossSolver, res.CrossAgree, res.CrossUnknown, res.CrossDisagree)
		}
		for what, c := range res.Unmodelled {
			fmt.Printf("INCONCLUSIVE unmodelled harness=%s paths=%d reason=%q\n", n, c, what)
		}
		for what, c := range res.Unknowns {
			fmt.Printf("INCONCLUSIVE solver-unknown harness=%s count=%d what=%q\n", n, c, what)
		}
		if res.PathsTruncated || len(res.BoundExceeded) > 0 {
			fmt.Printf("INCONCLUSIVE bound-exceeded harness=%s truncated=%v budget-paths=%d\n", n, res.PathsTruncated, len(res.BoundExceeded))
		}
		if res.Completed == 0 {
			fmt.Printf("INCONCLUSIVE no-completed-path harness=%s\n", n)
		}
		if r.noReplay {
			for _, c := range res.Violations {
				fmt.Printf("CANDIDATE (not replayed) harness=%s label=%s model=%v\n", n, c.Label, c.Model)
			}
			continue
		}
		if rp == nil {
			rp = newReplayer(r)
		}
		if strings.HasSuffix(n, "_race") && res.Completed == 0 {
			// nothing could be executed symbolically (an unmodelled callee before the first assertion): the native
			// concurrent twin still runs, with every choice at its first value, and its race / deadlock reports count
			if out, err := rp.run(fn, map[string]any{}, ""); err == nil {
				if marker := raceMarker(out.raw); marker != "" {
					label := "native-twin:" + marker
					p := rp.save(r.prop, n, label, map[string]any{}, out.raw)
					if k := kf.match(r.prop, n, label); k != nil {
						fmt.Printf("KNOWN-FINDING: property=%s %s (harness=%s assert=%s replay=%s)\n", r.prop, k.What, n, label, p)
						hs.KnownFindings++
					} else {
						fmt.Printf("VIOLATION property=%s replay=%s\n", r.prop, p)
						fmt.Printf("  harness=%s assert=%s (reported by the native concurrent twin of the harness; the symbolic run did not get past an unmodelled callee)\n", n, label)
						hs.Violations++
						exit = 1
					}
				}
			}
		}
		// translation validation: one native replay per covered label
		var labels []string
		for l := range res.CoverModels {
			labels = append(labels, l)
		}
		sort.Strings(labels)
		donePath := map[*interp.PathResult]bool{}
		for _, l := range labels {
			pr := res.CoverModels[l]
			if donePath[pr] {
				continue
			}
			hasViol := false
			for _, a := range pr.Asserts {
				if a.Status == "violated" {
					hasViol = true
				}
			}
			if hasViol {
				continue // replayed below as a counterexample candidate
			}
			donePath[pr] = true
			out, err := rp.run(fn, pr.CoverModel, "")
			if err != nil {
				fmt.Printf("INCONCLUSIVE replay-error harness=%s label=%s err=%v\n", n, l, err)
				hs.ReplayErrors++
				continue
			}
			ok, why := out.agrees(pr)
			if !ok && out.failedLabel != "" && pathViolates(pr, out.failedLabel) && kf.match(r.prop, n, out.failedLabel) != nil {
				// (agentB) the covering path itself ends in a registered known finding, symbolically and
				// natively alike: both runs agree, the finding is reported by the counterexample replay below
				ok = true
			}
			if !ok && strings.HasSuffix(n, "_race") {
				// The native twin of a concurrency harness runs the same operations from several goroutines under
				// the race detector. A report of the race detector (or of the harness's deadlock / contention
				// watchdog) is a real execution of the real code: it is reported although the symbolic run did not
				// predict it (the evidence says so).
				if marker := raceMarker(out.raw); marker != "" {
					label := "native-twin:" + marker
					p := rp.save(r.prop, n, label, pr.CoverModel, out.raw)
					if k := kf.match(r.prop, n, label); k != nil {
						fmt.Printf("KNOWN-FINDING: property=%s %s (harness=%s assert=%s replay=%s)\n", r.prop, k.What, n, label, p)
						hs.KnownFindings++
					} else {
						fmt.Printf("VIOLATION property=%s replay=%s\n", r.prop, p)
						fmt.Printf("  harness=%s assert=%s (reported by the native concurrent twin of the harness, not predicted symbolically) inputs=%v\n", n, label, pr.CoverModel)
						hs.Violations++
						exit = 1
					}
					continue
				}
			}
			if ok {
				hs.TracesValidated++
			} else {
				hs.TraceMismatches++
				p := rp.save(r.prop, n, "mismatch-"+l, pr.CoverModel, out.raw)
				fmt.Printf("INCONCLUSIVE translation-mismatch harness=%s cover=%s why=%s replay=%s\n", n, l, why, p)
			}
		}
		for l := range res.Covers {
			_ = l
		}
		// counterexamples: replay, report only what reproduces
		seen := map[string]int{}
		for _, c := range res.Violations {
			if seen[c.Label] >= 3 {
				continue
			}
			out, err := rp.run(fn, c.Model, c.Label)
			if err != nil {
				fmt.Printf("INCONCLUSIVE replay-error harness=%s label=%s err=%v\n", n, c.Label, err)
				hs.ReplayErrors++
				continue
			}
			if out.failedLabel == c.Label {
				seen[c.Label]++
				p := rp.save(r.prop, n, c.Label, c.Model, out.raw)
				if k := kf.match(r.prop, n, c.Label); k != nil {
					if seen[c.Label] == 1 {
						fmt.Printf("KNOWN-FINDING: property=%s %s (harness=%s assert=%s replay=%s)\n", r.prop, k.What, n, c.Label, p)
						hs.KnownFindings++
					}
					continue
				}
				fmt.Printf("VIOLATION property=%s replay=%s\n", r.prop, p)
				fmt.Printf("  harness=%s assert=%s inputs=%v\n", n, c.Label, c.Model)
				hs.Violations++
				exit = 1
			} else {
				hs.SpuriousCex++
				p := rp.save(r.prop, n, "spurious-"+c.Label, c.Model, out.raw)
				fmt.Printf("INCONCLUSIVE counterexample-not-reproduced harness=%s assert=%s native=%q replay=%s\n", n, c.Label, out.failedLabel, p)
			}
		}
	}
	ev.finish(time.Since(t0), r.prog.LoadSeconds)
	evPath := filepath.Join(r.verif, "evidence", r.prop+".json")
	if r.repo != "/repo" || r.only != "" || r.noReplay {
		// scratch runs (mutation worktrees, single harness) do not overwrite the registered evidence
		evPath = filepath.Join(os.TempDir(), fmt.Sprintf("symgo-evidence-%s-%d.json", r.prop, os.Getpid()))
		defer os.Remove(evPath)
	}
	if err := ev.write(evPath); err != nil {
		fmt.Fprintln(os.Stderr, "evidence:", err)
		return 2
	}
	fmt.Printf("%s %s: harnesses=%d paths=%d obligations discharged=%d violations=%d wall=%.1fs\n", r.prop, r.tier, len(names), ev.totalPaths, ev.totalDischarged, ev.totalViolations, time.Since(t0).Seconds())
	return exit
}

type knownFinding struct {
	Property string `json:"property"`
	Harness  string `json:"harness"`
	Assert   string `json:"assert"`
	What     string `json:"what"`
	Status   string `json:"status"` // "known" | "fixed"
	Commit   string `json:"commit,omitempty"`
}

type knownFindings struct{ list []knownFinding }

func loadKnownFindings(p string) *knownFindings {
	k := &knownFindings{}
	files := []string{p}
	more, _ := filepath.Glob(filepath.Join(filepath.Dir(p), "known_findings.d", "*.json"))
	files = append(files, more...)
	for _, fp := range files {
		data, err := os.ReadFile(fp)
		if err != nil {
			continue
		}
		var f struct {
			Findings []knownFinding `json:"findings"`
		}
		if json.Unmarshal(data, &f) == nil {
			k.list = append(k.list, f.Findings...)
		}
	}
	return k
}

func (k *knownFindings) match(prop, harness, label string) *knownFinding {
	for i := range k.list {
		f := &k.list[i]
		if f.Status == "known" && f.Property == prop && f.Harness == harness && f.Assert == label {
			return f
		}
	}
	return nil
}

// pathViolates reports whether the symbolic path recorded a violated assertion with this label (agentB).
func pathViolates(pr *interp.PathResult, label string) bool {
	for _, a := range pr.Asserts {
		if a.Label == label && a.Status == "violated" {
			return true
		}
	}
	return false
}

func raceMarker(raw string) string {
	switch {
	case strings.Contains(raw, "WARNING: DATA RACE"):
		return "data-race"
	case strings.Contains(raw, "fatal error: concurrent map"):
		return "concurrent-map-access"
	case strings.Contains(raw, "ZZ-DEADLOCK"):
		return "deadlock"
	case strings.Contains(raw, "ZZ-ATOMICITY"):
		return "atomicity"
	}
	return ""
}
